#!/usr/bin/env python3
"""usage: rebase_patch.py <repo dir> <patch.diff> <out.diff>
Re-expresses a seeded patch on the current tree of <repo dir> when its context no longer matches (a later fix: commit
touched neighbouring lines): every hunk is split into change groups (removed lines -> added lines, located by the removed
lines themselves, or by the nearest context line for pure insertions). Fails if a group cannot be located uniquely."""
import re, subprocess, sys
repo, pf, out = sys.argv[1:4]
files = {}
cur = None
hunks = []
for line in open(pf).read().split("\n"):
    if line.startswith("+++ b/"):
        cur = line[6:]
        files[cur] = []
    elif line.startswith("@@") and cur:
        files[cur].append([])
    elif cur and files[cur] and (line == "" or line[0] in " +-") and not line.startswith("--- ") and not line.startswith("+++ "):
        files[cur][-1].append(line if line else " ")
ok = True
for f, hs in files.items():
    p = repo + "/" + f
    src = open(p).read().split("\n")
    for h in hs:
        # change groups
        i = 0
        groups = []
        ctx_before = None
        while i < len(h):
            if h[i][:1] == " ":
                ctx_before = h[i][1:]
                i += 1
                continue
            rem, add = [], []
            while i < len(h) and h[i][:1] in "+-":
                (rem if h[i][0] == "-" else add).append(h[i][1:])
                i += 1
            ctx_after = h[i][1:] if i < len(h) else None
            groups.append((rem, add, ctx_before, ctx_after))
        for rem, add, cb, ca in groups:
            if rem:
                pos = [k for k in range(len(src) - len(rem) + 1) if src[k:k + len(rem)] == rem]
                if len(pos) != 1:
                    # disambiguate by the following context line
                    pos = [k for k in pos if ca is None or (k + len(rem) < len(src) and src[k + len(rem)] == ca)] or pos
                if len(pos) != 1:
                    print("cannot locate removed block uniquely in %s: %r (%d matches)" % (f, rem[:2], len(pos)))
                    ok = False
                    continue
                k = pos[0]
                src[k:k + len(rem)] = add
            else:
                pos = [k for k in range(len(src)) if cb is not None and src[k] == cb and (ca is None or (k + 1 < len(src) and src[k + 1] == ca))]
                if len(pos) != 1:
                    pos2 = [k for k in range(len(src)) if ca is not None and src[k] == ca]
                    if len(pos2) == 1:
                        src[pos2[0]:pos2[0]] = add
                        continue
                    print("cannot locate insertion point in %s after %r" % (f, cb))
                    ok = False
                    continue
                src[pos[0] + 1:pos[0] + 1] = add
    open(p, "w").write("\n".join(src))
if not ok:
    sys.exit(1)
d = subprocess.run(["git", "-C", repo, "diff", "--", "src"], capture_output=True, text=True).stdout
open(out, "w").write(d)
print("rebased:", out)
