#!/usr/bin/env python3
"""Generates /verif/MANIFEST.json from rules/props.py (one source of truth for what each check claims)."""
import json, sys
sys.path.insert(0, "/verif/rules")
import props
ids = [json.loads(l)["id"] for l in open("/verif/properties.jsonl")]
checks = []
for pid in ids:
    p = props.PROPS.get(pid)
    if not p:
        continue
    checks.append({
        "property_id": pid,
        "quick_cmd": "./check %s --tier quick" % pid,
        "thorough_cmd": "./check %s --tier thorough" % pid,
        "evidence_file": "/verif/evidence/%s.json" % pid,
        "replay_cmd_template": "./check %s --replay {path}" % pid,
        "engine": "orxfacts",
        "level_claimed": {
            "category": "other",
            "text": "Static conformance analysis: on every run the type-checked program (MIR at mir-opt-level 0 with resolved "
                    "callees, ADT/impl tables, trait-solver answers) is extracted from /repo's working tree and the property's "
                    "structural necessary conditions are generated as obligations for every implementor, pull path and site; "
                    "each is discharged (entailed by guard facts / term identity), reported as a violation naming the construct, "
                    "or listed as a known finding. " + p["explanation"] + " This is the right level because the property "
                    "quantifies over schedules/inputs/programs that no test run can enumerate, while its truth on this code "
                    "base follows from shape conditions visible on every path of every implementor at once.",
            "design_ref": "DESIGN.md sections 4 and 5 (%s)" % pid,
        },
        "level_note": "Decides the structural clauses named above, not the run-time behaviour itself. Declined: %s. Trusted: "
                      "nightly MIR is a faithful view of what the stable toolchain builds; std functions behave as documented "
                      "(summary table rules/terms.py); heap fields written through pointers are read flow-insensitively with "
                      "their writers enumerated; the arguments of DESIGN.md 1.2 connecting shape to behaviour." % p["declined"],
        "technique": p["technique"],
    })
m = {
    "version": 1,
    "setup_cmd": "cd /verif/engine/orxfacts && CARGO_NET_OFFLINE=true cargo build --release --offline",
    "hooks": {
        "guard": "orx_concurrent_iter_verif",
        "enable": "none needed: the analysis reads the type-checked program through a rustc_private driver "
                  "(RUSTC_WORKSPACE_WRAPPER under cargo +nightly check); no source hooks exist in /repo",
        "baseline_off_cmd": "cd /repo && cargo nextest run --workspace --no-fail-fast --offline || cargo test --workspace --no-fail-fast --offline",
        "source_commits": [],
        "add_only": True,
    },
    "engines": [{
        "name": "orxfacts",
        "path": "/verif/engine/orxfacts",
        "serves_properties": [c["property_id"] for c in checks],
        "kind_free_text": "rustc_private fact extractor (MIR, resolved callees, type tables, auto-trait audit by the trait "
                          "solver) + Python rule engine (terms, guard facts, entailment, regions, ownership ledger) + "
                          "compile witnesses; static analysis only: nothing from /repo is ever executed",
    }],
    "checks": checks,
    "notes": "All 19 properties are claimed at level 'other' (static conformance analysis). Genuine defects found and repaired "
             "in /repo are listed as 'fixed:' entries in /verif/known_findings.json; the three that are recorded rather than "
             "repaired (D8 and D9 under C14; D19 - the ticket counter of the wrapper over an arbitrary iterator wraps for a chunk "
             "size near usize::MAX - under C01, C04, C07 and C16) are suppressed by exact obligation key only: the check prints a "
             "KNOWN-FINDING line for each and exits 0.",
    "not_applicable": [{"property_id": pid, "reason": "check under construction"} for pid in ids if pid not in props.PROPS],
}
json.dump(m, open("/verif/MANIFEST.json", "w"), indent=1)
print("checks:", len(checks), "n/a:", len(m["not_applicable"]))
