#!/usr/bin/env python3
"""Writes /verif/seeded/<id>/meta.json from confirm.json (what was run when the change was confirmed), matrix.json (which
checks flag it) and the author's README (what the change is and what it needs in order to manifest)."""
import json, os, re, glob
mx = json.load(open("/verif/seeded/matrix.json")) if os.path.exists("/verif/seeded/matrix.json") else {}
for d in sorted(glob.glob("/verif/seeded/*/")):
    sid = os.path.basename(d.rstrip("/"))
    cf = os.path.join(d, "confirm.json")
    if not os.path.exists(cf):
        continue
    c = json.load(open(cf))
    readme = ""
    rp = os.path.join(d, "README.agent.md")
    if os.path.exists(rp):
        readme = open(rp).read()
    needs = []
    lines = readme.splitlines()
    for i, l in enumerate(lines):
        if re.match(r"^\s*(#+|\*\*)", l) and re.search(r"need|manifest", l, re.I):
            body = []
            for l2 in lines[i + 1:]:
                if re.match(r"^\s*#+ ", l2) and body:
                    break
                if l2.strip():
                    body.append(l2.strip("-* ").strip())
            rest = l.split("**")[-1].strip(" :") if "**" in l else ""
            needs = ([rest] if len(rest) > 20 else []) + body[:6]
            break
    if not needs:
        needs = [l.strip("-* ").strip() for l in lines if re.search(r"\bneeds?\b", l, re.I)][:4]
    needs = [n[:400] for n in needs]
    prop = sid.split("-")[0].replace("R2_", "").replace("R3_", "").replace("R4_", "").replace("R5_", "").replace("R6_", "").replace("R7_", "")
    m = mx.get(sid, {})
    demos = sorted(os.path.basename(x) for x in glob.glob(d + "*.rs") + glob.glob(d + "*.sh"))
    mode = c.get("mode", "debug")
    cmd = {"debug": "cargo test --offline --test <demo>", "release": "cargo test --release --offline --test <demo>",
           "miri": "MIRIFLAGS=-Zmiri-many-seeds=0..4 cargo +nightly miri test --offline --test <demo>",
           "miri-race": "MIRIFLAGS='-Zmiri-many-seeds=0..64 -Zmiri-preemption-rate=0.3' cargo +nightly miri test --offline "
                        "--test <zz_race demo> (the interleaving the change needs is found by Miri's seeded scheduler; the "
                        "author's single-threaded demonstration was neutralised by the later repair of D18)",
           "race-native": "cargo test --offline --test <zz_race demo> (a native stress test over many rounds: the change needs a "
                          "pull that passed the exhaustion check before a concurrent skip_to_end and reserves after it; the "
                          "author's single-threaded demonstration was neutralised by the later repairs of D18/D21)",
           "script": "sh demo.sh <worktree>"}.get(mode, mode)
    meta = {
        "id": sid,
        "breaks_property": prop,
        "patch": "patch.diff (applies to /repo at %s with `git -C /repo apply`)" % c.get("repo_head"),
        "demonstration": demos,
        "what_it_is": " ".join(readme.split("\n\n")[0:2])[:900] if readme else "",
        "needs_to_manifest": needs,
        "confirmed": {
            "how": "scratch worktree of /repo (outside /repo and /verif), removed afterwards: demonstration on the clean tree, "
                   "patch applied, demonstration again, pinned baseline with the patch",
            "demonstration_cmd": cmd,
            "demonstration_on_clean_tree": "passes" if c.get("demo_clean_rc") == 0 else "FAILS (rc %s)" % c.get("demo_clean_rc"),
            "demonstration_with_patch": "fails" if c.get("demo_with_patch_rc") not in (0, -1) else "rc %s" % c.get("demo_with_patch_rc"),
            "compiles_with_patch": c.get("build_rc") == 0,
            "pinned_baseline_with_patch": c.get("baseline_with_patch"),
        },
        "checks": {
            "flagged_by_check_of_its_property": m.get("own_flags"),
            "flagged_by": m.get("flagged_by"),
            "rules": m.get("rules", {}).get(prop),
        },
    }
    json.dump(meta, open(os.path.join(d, "meta.json"), "w"), indent=1)
print("meta written for", len(glob.glob("/verif/seeded/*/meta.json")))
