#!/bin/bash
# usage: chk_wt.sh <repo dir> [props...]  -- runs quick checks against another working tree (development helper)
R=$1; shift
P=${@:-C01 C02 C03 C04 C05 C06 C07 C08 C09 C10 C11 C12 C13 C14 C15 C16 C17 C18 C19}
cd /verif
for p in $P; do ( ORX_REPO=$R ./check $p > .work/chkwt_$$_$p.log 2>&1; echo "$p rc=$?"; grep -E "^\S+: \[" .work/chkwt_$$_$p.log | cut -c1-${W:-400} ) & done | cat
wait
rm -f .work/chkwt_$$_*.log
