#!/usr/bin/env python3
"""For every seeded change: apply to /repo, run all quick checks, record which properties raise a violation; revert.
usage: matrix.py [seed ids...]   (default: all under /verif/seeded with a patch.diff, plus /tmp/wt staging)"""
import json, os, subprocess, sys, glob, re
PROPS = ["C%02d" % i for i in range(1, 20)]
def sh(cmd, **kw):
    return subprocess.run(cmd, shell=True, text=True, stdout=subprocess.PIPE, stderr=subprocess.STDOUT, **kw)
WT = os.environ.get("MATRIX_WT")  # optional scratch worktree to patch instead of /repo (development runs)
TARGET = WT or "/repo"
def run_all():
    procs = {}
    env = dict(os.environ)
    env["ORX_REPO"] = TARGET
    for p in PROPS:
        procs[p] = subprocess.Popen(["./check", p, "--tier", "quick"], cwd="/verif", text=True, stdout=subprocess.PIPE,
                                    stderr=subprocess.STDOUT, env=env)
    res = {}
    for p, pr in procs.items():
        out = pr.communicate()[0]
        rules = sorted(set(re.findall(r"^\S+: \[([A-Za-z.\-]+)\]", out, re.M)))
        res[p] = {"rc": pr.returncode, "rules": rules}
    return res
def main():
    seeds = sys.argv[1:]
    items = []
    for d in sorted(glob.glob("/tmp/wt/C*/MUTANT*") + glob.glob("/tmp/wt/R2_C*/MUTANT*") + glob.glob("/tmp/wt/R3_C*/MUTANT*") + glob.glob("/tmp/wt/R4_C*/MUTANT*") + glob.glob("/tmp/wt/R5_C*/MUTANT*") + glob.glob("/tmp/wt/R6_C*/MUTANT*") + glob.glob("/tmp/wt/R7_C*/MUTANT*")):
        sid = "%s-m%s" % (d.split("/")[3], d[-1])
        pf = os.path.join(d, "patch.diff")
        for alt in ("patch.rebased3.diff", "patch.rebased2.diff", "patch.rebased.diff"):
            if os.path.exists(os.path.join(d, alt)):
                pf = os.path.join(d, alt)
                break
        if not seeds and not os.path.exists("/verif/seeded/%s/confirm.json" % sid):
            continue  # delivered but not kept (not confirmed, or its behaviour-preserving part is not silent)
        if os.path.exists(pf) and (not seeds or sid in seeds):
            items.append((sid, pf))
    # (the staging directories are scratch: without them the patches kept under /verif/seeded are used)
    have = {sid for sid, _pf in items}
    for d in sorted(glob.glob("/verif/seeded/*/")):
        sid = os.path.basename(d.rstrip("/"))
        pf = os.path.join(d, "patch.diff")
        if sid not in have and os.path.exists(pf) and os.path.exists(os.path.join(d, "confirm.json")) and (not seeds or sid in seeds):
            items.append((sid, pf))
    out = {}
    mp = "/verif/seeded/matrix.json"
    if os.path.exists(mp):
        out = {k: v for k, v in json.load(open(mp)).items() if os.path.exists("/verif/seeded/%s/confirm.json" % k)}
    if WT:
        if not os.path.isdir(WT):
            sh("git -C /repo worktree add -q --detach %s HEAD" % WT)
        sh("git -C %s checkout -q --detach %s && git -C %s reset -q --hard" % (
            WT, sh("git -C /repo rev-parse HEAD").stdout.strip(), WT))
    assert sh("git -C %s status --porcelain -- src" % TARGET).stdout.strip() == "", "repo dirty"
    for sid, pf in items:
        r = sh("git -C %s apply %s" % (TARGET, pf))
        if r.returncode != 0:
            out[sid] = {"apply": "fail"}
            print(sid, "cannot apply")
            continue
        try:
            res = run_all()
        finally:
            sh("git -C %s checkout -- src && git -C %s clean -fdq -- src" % (TARGET, TARGET))
        flagged = [p for p in PROPS if res[p]["rc"] == 1]
        infra = [p for p in PROPS if res[p]["rc"] not in (0, 1)]
        own = sid.split("-")[0].replace("R2_", "").replace("R3_", "").replace("R4_", "").replace("R5_", "").replace("R6_", "").replace("R7_", "")
        out[sid] = {"own_property": own, "own_flags": own in flagged, "flagged_by": flagged, "infra": infra,
                    "rules": {p: res[p]["rules"] for p in flagged}}
        print(sid, "own:", own in flagged, "by:", ",".join(flagged), "infra:", infra, flush=True)
        json.dump(out, open(mp, "w"), indent=1, sort_keys=True)
main()
