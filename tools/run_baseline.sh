#!/bin/bash
# Runs the pinned baseline suite on a repo dir (default /repo) and compares the set of passing tests with
# BASELINE.json's stable_pass. usage: run_baseline.sh [repo_dir]
R=${1:-/repo}
cd $R
export CARGO_NET_OFFLINE=true
T=${CARGO_TARGET_DIR:-$R/target}
cargo nextest run --workspace --no-fail-fast --tool-config-file pb:/w/lib/nextest.toml --profile pb --test-threads 12 --offline > /tmp/baseline_run.$$.log 2>&1
J=$T/nextest/pb/junit.xml
python3 - "$J" <<'P'
import sys,json,re
import xml.etree.ElementTree as ET
base=set(json.load(open('/root/.vp/BASELINE.json'))['stable_pass'])
t=ET.parse(sys.argv[1]).getroot()
passed=set();failed=set()
for ts in t.iter('testsuite'):
    for tc in ts.iter('testcase'):
        name=tc.get('classname')+'::'+tc.get('name')
        bad=any(c.tag in('failure','error') for c in tc)
        (failed if bad else passed).add(name)
print('passed',len(passed),'failed',len(failed),'baseline',len(base),'baseline_missing',len(base-passed))
for m in sorted(base-passed)[:20]: print('  MISSING',m)
sys.exit(0 if not (base-passed) else 1)
P
rc=$?
tail -3 /tmp/baseline_run.$$.log; rm -f /tmp/baseline_run.$$.log
exit $rc
