#!/bin/bash
# usage: dump_all.sh <repo dir> <out file>  -- all obligations (status key) of all 19 quick checks (development helper)
R=$1; O=$2
cd /verif; mkdir -p .work
for p in C01 C02 C03 C04 C05 C06 C07 C08 C09 C10 C11 C12 C13 C14 C15 C16 C17 C18 C19; do
  ( ORX_REPO=$R ORX_DUMP=1 ./check $p 2>&1 | grep -E "^  (ok|viol|undecided) " | awk -F' \\| ' '{print $1}' | sed "s/^ */$p /" > .work/dump_$$_$p.txt ) &
done; wait
cat .work/dump_$$_C*.txt | awk '{print $2, $3, $4, $5, $6}' | sort -u > $O
rm -f .work/dump_$$_*.txt
wc -l $O
