#!/bin/bash
# Full repository suite in the release profile (the pinned debug suite cannot execute the consuming iterators).
R=${1:-/repo}
cd $R
CARGO_NET_OFFLINE=true CARGO_TARGET_DIR=/tmp/reltgt cargo nextest run --workspace --release --no-fail-fast --offline --test-threads 12 2>&1 | grep -E "^\s+(Summary|FAIL|SIGABRT|SIGSEGV)|error" | sort | uniq -c | sort -rn | head -20
