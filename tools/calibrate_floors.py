#!/usr/bin/env python3
"""Writes rules/floors.json from the obligation counts of the evidence files of a run on the reviewed tree.
Rule families whose instances are fixed by the role table (worlds x pull units, implementors) keep their exact count;
site enumerations (every atomic op, every arithmetic site, ...) keep 80% so that removing a helper is not an alarm."""
import json, glob, os
ENUM = ("ATOM.a", "ATOM", "OVF", "PRE", "LIVE.a", "LIVE", "SURFACE", "TYPE", "UNW", "CELL.d", "CELL", "STICKY", "ORD.iii", "ORD",
        "LEAK.prim", "OWN.a", "OWN", "DONE-EVID", "DONE-SET")
# rules that enumerate a tolerated or dangerous construct (adaptor methods left at the trait default, takes of the
# storage, raw accesses to the cell, unwinding sites in held regions, debug_assert! sites): fewer of them is never a loss, and CELL.d / UNW
# have an anchor obligation of their own ("no site found")
NO_FLOOR = ("FWD.cover", "OWN.f", "CELL.d", "UNW", "PRE.dbg")
out = {}
for f in sorted(glob.glob("/verif/evidence/C*.json")):
    d = json.load(open(f))
    fl = {}
    for rule, n in d["coverage"]["rules"]:
        if rule in ("FLOOR", "ROLES") or n == 0:
            continue
        if rule in NO_FLOOR:
            continue
        # 70% of what was confirmed on the reviewed tree: merging two helpers or inlining a closure (which removes a few
        # instances) is not an alarm; a rule family that collapses or matches nothing is
        fl[rule] = max(1, int(n * 0.7))
    out[d["property_id"]] = fl
json.dump(out, open("/verif/rules/floors.json", "w"), indent=1, sort_keys=True)
print({k: sum(v.values()) for k, v in out.items()})
