#!/bin/bash
# usage: try_patch.sh <patch.diff | -R:<commit>> <prop> [<prop>...]   — applies to /repo, runs checks, always reverts
P=$1; shift
cd /repo
if [ -n "$(git status --porcelain -- src)" ]; then echo "repo/src dirty, abort"; exit 3; fi
if [[ "$P" == -R:* ]]; then git show ${P#-R:} -- src | git apply -R || { echo "cannot reverse-apply"; exit 3; }
else git apply "$P" || { echo "cannot apply (rebase the patch in a scratch worktree first)"; exit 3; }; fi
trap "git -C /repo checkout -- src" EXIT
cd /verif
for id in "$@"; do ./check $id --tier ${TIER:-quick} 2>&1 | grep -E "VIOLATION|KNOWN|INFRA|tier=|^\S+:[0-9]+: \[" | cut -c1-260; done
