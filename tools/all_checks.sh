#!/bin/bash
# runs all 19 quick (or $TIER) checks in parallel; prints one summary line per property and the violations
cd /verif
T=${TIER:-quick}
ls evidence >/dev/null 2>&1 || mkdir -p evidence
seq -w 1 19 | xargs -P 10 -I{} sh -c "./check C{} --tier $T > .work/all_C{}.log 2>&1; echo \"C{} rc=\$?\" >> .work/all_rc.log"
for i in $(seq -w 1 19); do grep -E "^\S+:[0-9-]*: \[|^-: \[|tier=|INFRA|Traceback" .work/all_C$i.log | cut -c1-${W:-200}; done
sort .work/all_rc.log | tr '\n' ' '; echo; rm -f .work/all_rc.log .work/all_C*.log
