#!/usr/bin/env python3
"""Applies each benign (behaviour-preserving) patch to /repo, runs all quick checks, expects no violation; reverts."""
import json, os, subprocess, sys, glob, re
PROPS = ["C%02d" % i for i in range(1, 20)]
def sh(cmd): return subprocess.run(cmd, shell=True, text=True, stdout=subprocess.PIPE, stderr=subprocess.STDOUT)
WT = os.environ.get("BENIGN_WT")  # optional scratch worktree to patch instead of /repo (development runs)
TARGET = WT or "/repo"
if WT:
    if not os.path.isdir(WT):
        sh("git -C /repo worktree add -q --detach %s HEAD" % WT)
    sh("git -C %s checkout -q --detach %s && git -C %s reset -q --hard" % (WT, sh("git -C /repo rev-parse HEAD").stdout.strip(), WT))
ENV = dict(os.environ); ENV["ORX_REPO"] = TARGET
assert sh("git -C %s status --porcelain -- src" % TARGET).stdout.strip() == ""
res = {}
for pf in sorted(glob.glob(sys.argv[1] + "/*.diff")):
    name = os.path.basename(pf)[:-5]
    if sh("git -C %s apply %s" % (TARGET, pf)).returncode != 0:
        print(name, "cannot apply"); continue
    try:
        procs = {p: subprocess.Popen(["./check", p], cwd="/verif", text=True, stdout=subprocess.PIPE, stderr=subprocess.STDOUT, env=ENV) for p in PROPS}
        bad = {}
        for p, pr in procs.items():
            out = pr.communicate()[0]
            if pr.returncode != 0:
                bad[p] = [l[:230] for l in out.splitlines() if re.match(r"^\S+: \[|^INFRA|Traceback", l)][:3] + ["rc=%d" % pr.returncode]
    finally:
        sh("git -C %s checkout -- src && git -C %s clean -fdq -- src" % (TARGET, TARGET))
    res[name] = bad
    print(name, "SILENT" if not bad else "ALARMS: " + json.dumps(bad, indent=1)[:1500], flush=True)
json.dump(res, open(sys.argv[1].rstrip("/") + "_result.json", "w"), indent=1)
