#!/usr/bin/env python3
"""Applies each benign (behaviour-preserving) patch to /repo, runs all quick checks, expects no violation; reverts."""
import json, os, subprocess, sys, glob, re
PROPS = ["C%02d" % i for i in range(1, 20)]
def sh(cmd): return subprocess.run(cmd, shell=True, text=True, stdout=subprocess.PIPE, stderr=subprocess.STDOUT)
assert sh("git -C /repo status --porcelain -- src").stdout.strip() == ""
res = {}
for pf in sorted(glob.glob(sys.argv[1] + "/b*.diff")):
    name = os.path.basename(pf)[:-5]
    if sh("git -C /repo apply %s" % pf).returncode != 0:
        print(name, "cannot apply"); continue
    try:
        procs = {p: subprocess.Popen(["./check", p], cwd="/verif", text=True, stdout=subprocess.PIPE, stderr=subprocess.STDOUT) for p in PROPS}
        bad = {}
        for p, pr in procs.items():
            out = pr.communicate()[0]
            if pr.returncode != 0:
                bad[p] = [l[:230] for l in out.splitlines() if re.match(r"^\S+: \[|^INFRA|Traceback", l)][:3] + ["rc=%d" % pr.returncode]
    finally:
        sh("git -C /repo checkout -- src")
    res[name] = bad
    print(name, "SILENT" if not bad else "ALARMS: " + json.dumps(bad, indent=1)[:1500], flush=True)
json.dump(res, open("/verif/selftest/benign_result.json", "w"), indent=1)
