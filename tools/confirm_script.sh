#!/bin/bash
# usage: confirm_script.sh <mutant_dir> <seed_id>   -- like confirm_mutant.sh for seeded changes whose demonstration is a
# script `demo.sh <worktree>` (exit 0: property holds, 1: broken), e.g. client programs that must not compile (C14)
M=$1; ID=$2; PF=${3:-patch.diff}
W=/tmp/wt/confirm
export CARGO_NET_OFFLINE=true RUST_BACKTRACE=0
if [ ! -d $W ]; then git -C /repo worktree add -q --detach $W HEAD; fi
cd $W || exit 3
git reset -q --hard; git checkout -q --detach "$(git -C /repo rev-parse HEAD)"; git reset -q --hard
git clean -fdq -e target -e target-rel
OUT=/verif/seeded/$ID; mkdir -p $OUT
cp $M/$PF $OUT/patch.diff; cp $M/demo.sh $M/*.rs $OUT/ 2>/dev/null; [ -f $M/README.md ] && cp $M/README.md $OUT/README.agent.md
bash $M/demo.sh $W > $OUT/.demo.log 2>&1; CLEAN=$?
APPLY=ok; git apply $OUT/patch.diff 2>/dev/null || APPLY=fail
if [ $APPLY = ok ]; then
  cargo build --offline >/dev/null 2>&1; BUILD=$?
  bash $M/demo.sh $W > $OUT/.demo.log 2>&1; MUT=$?
  tail -5 $OUT/.demo.log > $OUT/demo_with_patch.tail.txt
  BASE=$(/verif/tools/run_baseline.sh $W 2>&1 | grep -E "^passed|MISSING" | tr '\n' ';')
else BUILD=-1; MUT=-1; BASE="n/a"; fi
rm -f $OUT/.demo.log
git reset -q --hard; git clean -fdq -e target -e target-rel
python3 - "$ID" "script" "$APPLY" "$BUILD" "$CLEAN" "$MUT" "$BASE" "$OUT" <<'P'
import json, sys, subprocess
sid, mode, app, build, clean, mut, base, out = sys.argv[1:9]
head = subprocess.run(["git", "-C", "/repo", "rev-parse", "--short", "HEAD"], capture_output=True, text=True).stdout.strip()
json.dump({"seed": sid, "mode": mode, "repo_head": head, "apply": app, "build_rc": int(build), "demo_clean_rc": int(clean),
           "demo_with_patch_rc": int(mut), "baseline_with_patch": base}, open(out + "/confirm.json", "w"), indent=1)
P
tr '\n' ' ' < $OUT/confirm.json; echo
