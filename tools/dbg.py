"""development helper: python3 -i tools/dbg.py <facts.json>  -> env, T, helpers"""
import sys
sys.path.insert(0, "/verif/rules")
from facts import Facts
from env import Env
from terms import fmt
from guards import *
from r_ticket import _ticket
F = Facts(sys.argv[1]); env = Env(F); T = _ticket(env); ev = env.ev
def body(name):
    return [b for b in F.non_test_bodies() if name in env.fname(b)]
def ff(fs):
    return [tuple(fmt(x) if isinstance(x, tuple) else x for x in f) for f in fs]
