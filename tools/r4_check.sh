#!/bin/bash
# usage: r4_check.sh <R4 mutant dir>  -- round 4 ("refactor + bug"): the refactor-only patch must be silent in all checks,
# the full patch must be flagged (by the check of its own property)
D=$1; W=/tmp/wt/r4wt
[ -d $W ] || git -C /repo worktree add -q --detach $W HEAD
git -C $W reset -q --hard; git -C $W checkout -q --detach $(git -C /repo rev-parse HEAD); git -C $W clean -fdq
for pf in patch_refactor_only.diff patch.diff; do
  git -C $W reset -q --hard; git -C $W clean -fdq
  if ! git -C $W apply $D/$pf 2>/dev/null; then echo "$pf: cannot apply"; continue; fi
  echo "== $pf: $(W=200 /verif/tools/chk_wt.sh $W 2>&1 | grep 'rc=1' | cut -d' ' -f1 | sort | tr '\n' ' ')"
  if [ $pf = patch_refactor_only.diff ]; then W=260 /verif/tools/chk_wt.sh $W 2>&1 | grep -E "^\S+: \[" | sort | uniq | head -6; fi
done
git -C $W reset -q --hard; git -C $W clean -fdq
