#!/bin/bash
# usage: r4_delta.sh <R4/R5 mutant dir>  -- violation lines (rule + message, without file:line) that the full patch raises and
# the refactor-only patch does not: what the checker attributes to the bug itself even when the refactoring is noisy
D=$1; W=/tmp/wt/r4wt
[ -d $W ] || git -C /repo worktree add -q --detach $W HEAD
git -C $W reset -q --hard; git -C $W checkout -q --detach $(git -C /repo rev-parse HEAD); git -C $W clean -fdq
for pf in patch_refactor_only.diff patch.diff; do
  git -C $W reset -q --hard; git -C $W clean -fdq
  git -C $W apply $D/$pf 2>/dev/null || { echo "$pf: cannot apply"; continue; }
  W=300 /verif/tools/chk_wt.sh $W 2>&1 | grep -E "^\S+: \[" | sed -E 's/^[^ ]+: //' | sort -u > /tmp/wt/.delta_$pf.txt
done
git -C $W reset -q --hard; git -C $W clean -fdq
comm -13 /tmp/wt/.delta_patch_refactor_only.diff.txt /tmp/wt/.delta_patch.diff.txt
