#!/bin/bash
# usage: confirm_mutant.sh <mutant_dir> <seed_id> <mode: debug|release|miri> [patch file name]
# Confirms a seeded change in a scratch worktree (/tmp/wt/confirm): the demonstration passes on the clean tree, fails with
# the patch, and the pinned baseline still passes with the patch. Writes /verif/seeded/<seed_id>/{patch.diff,<demo>,confirm.json}
M=$1; ID=$2; MODE=${3:-debug}; PF=${4:-patch.diff}
W=/tmp/wt/confirm
export CARGO_NET_OFFLINE=true RUST_BACKTRACE=0
if [ ! -d $W ]; then git -C /repo worktree add -q --detach $W HEAD; fi
cd $W || exit 3
git reset -q --hard
git checkout -q --detach "$(git -C /repo rev-parse HEAD)"
git reset -q --hard
git clean -fdq -e target -e target-rel
OUT=/verif/seeded/$ID
mkdir -p $OUT
cp $M/$PF $OUT/patch.diff
DEMOS=$(ls $M/*.rs 2>/dev/null | grep -v "twin\|must_not\|compile_fail\|nightly\|zz_race\|_uaf")
# miri-race: demonstrations that need a particular interleaving, explored with Miri's seeded scheduler (zz_race*.rs only)
if [ "$MODE" = "miri-race" ] || [ "$MODE" = "race-native" ]; then DEMOS=$(ls $M/zz_race*.rs 2>/dev/null); fi
for d in $DEMOS; do cp $d tests/; cp $d $OUT/; done
[ -f $M/README.md ] && cp $M/README.md $OUT/README.agent.md
run_demo() {
  local rc=0
  for d in $DEMOS; do
    t=$(basename $d .rs)
    case $MODE in
      release) timeout 1200 cargo test --release --offline --test $t >$OUT/.demo.log 2>&1 || rc=1 ;;
      miri) MIRIFLAGS="-Zmiri-many-seeds=0..4 -Zmiri-disable-isolation" timeout 2400 cargo +nightly miri test --offline --test $t >$OUT/.demo.log 2>&1 || rc=1 ;;
      miri-race) MIRIFLAGS="-Zmiri-many-seeds=0..64 -Zmiri-preemption-rate=0.3 -Zmiri-disable-isolation" timeout 3000 cargo +nightly miri test --offline --test $t >$OUT/.demo.log 2>&1 || rc=1 ;;
      *) timeout 1200 cargo test --offline --test $t >$OUT/.demo.log 2>&1 || rc=1 ;;
    esac
  done
  return $rc
}
run_demo; CLEAN=$?
APPLY=ok
git apply $OUT/patch.diff 2>/dev/null || APPLY=fail
if [ $APPLY = ok ]; then
  cargo build --offline >/dev/null 2>&1; BUILD=$?
  run_demo; MUT=$?
  tail -5 $OUT/.demo.log > $OUT/demo_with_patch.tail.txt
  for d in $DEMOS; do rm -f tests/$(basename $d); done
  if [ -n "$SKIP_BASELINE" ] && [ -f $OUT/confirm.json ] && grep -q "baseline_missing 0" $OUT/confirm.json; then
    BASE="(carried over from the confirmation at $(python3 -c "import json;print(json.load(open('$OUT/confirm.json'))['repo_head'])")) $(python3 -c "import json;print(json.load(open('$OUT/confirm.json'))['baseline_with_patch'])")"
  else
  BASE=$(/verif/tools/run_baseline.sh $W 2>&1 | grep -E "^passed|MISSING" | tr '\n' ';')
  if ! echo "$BASE" | grep -q "baseline_missing 0"; then
    sleep 30
    BASE2=$(/verif/tools/run_baseline.sh $W 2>&1 | grep -E "^passed|MISSING" | tr '\n' ';')
    BASE="retry: $BASE2 first: $BASE"
  fi
  fi
else
  BUILD=-1; MUT=-1; BASE="n/a"
fi
rm -f $OUT/.demo.log
git reset -q --hard
git clean -fdq -e target -e target-rel
python3 - "$ID" "$MODE" "$APPLY" "$BUILD" "$CLEAN" "$MUT" "$BASE" "$OUT" <<'P'
import json, sys, subprocess
sid, mode, app, build, clean, mut, base, out = sys.argv[1:9]
head = subprocess.run(["git", "-C", "/repo", "rev-parse", "--short", "HEAD"], capture_output=True, text=True).stdout.strip()
json.dump({"seed": sid, "mode": mode, "repo_head": head, "apply": app, "build_rc": int(build), "demo_clean_rc": int(clean),
           "demo_with_patch_rc": int(mut), "baseline_with_patch": base}, open(out + "/confirm.json", "w"), indent=1)
P
tr '\n' ' ' < $OUT/confirm.json; echo
