#!/bin/bash
# usage: confirm_mutant.sh <mutant_dir> <seed_id> <mode: debug|release|miri> 
# Confirms a seeded change in a scratch worktree (/tmp/wt/confirm): demo passes clean, fails with the patch, baseline still passes.
# Writes /verif/seeded/<seed_id>/{patch.diff,<demo files>,confirm.json}
M=$1; ID=$2; MODE=${3:-debug}
W=/tmp/wt/confirm
export CARGO_NET_OFFLINE=true RUST_BACKTRACE=0
if [ ! -d $W ]; then git -C /repo worktree add -q --detach $W HEAD; fi
cd $W && git checkout -q --detach $(git -C /repo rev-parse HEAD) && git checkout -q -- . && git clean -fdq -e target -e target-rel
OUT=/verif/seeded/$ID; mkdir -p $OUT
cp $M/patch.diff $OUT/patch.diff
DEMOS=$(ls $M/*.rs 2>/dev/null)
for d in $DEMOS; do cp $d tests/; cp $d $OUT/; done
[ -f $M/README.md ] && cp $M/README.md $OUT/README.agent.md
run_demo() {
  local rc=0
  for d in $DEMOS; do
    t=$(basename $d .rs)
    case $MODE in
      release) timeout 900 cargo test --release --offline --test $t >$OUT/.demo.log 2>&1 || rc=1;;
      miri) MIRIFLAGS="-Zmiri-many-seeds=0..4 -Zmiri-disable-isolation" timeout 1500 cargo +nightly miri test --offline --test $t >$OUT/.demo.log 2>&1 || rc=1;;
      *) timeout 900 cargo test --offline --test $t >$OUT/.demo.log 2>&1 || rc=1;;
    esac
  done
  return $rc
}
run_demo; CLEAN=$?
APPLY=ok
git apply $OUT/patch.diff 2>/dev/null || git apply --3way $OUT/patch.diff 2>/dev/null || APPLY=fail
if [ $APPLY = ok ]; then
  git diff -- src > $OUT/patch.diff
  cargo build --offline >/dev/null 2>&1; BUILD=$?
  run_demo; MUT=$?
  tail -5 $OUT/.demo.log > $OUT/demo_with_patch.tail.txt
  for d in $DEMOS; do rm -f tests/$(basename $d); done
  BASE=$(/tmp/tools/run_baseline.sh $W 2>&1 | grep -E "^passed|MISSING" | tr '\n' ';')
  case "$BASE" in *"baseline_missing 0"*) ;; *) sleep 20; BASE="retry: $(/tmp/tools/run_baseline.sh $W 2>&1 | grep -E "^passed|MISSING" | tr '\n' ';') first: $BASE";; esac
else BUILD=-1; MUT=-1; BASE="n/a"; fi
rm -f $OUT/.demo.log
git checkout -q -- . ; git clean -fdq -e target -e target-rel
python3 - <<P
import json
json.dump({"seed": "$ID", "mode": "$MODE", "repo_head": "$(git -C /repo rev-parse --short HEAD)", "apply": "$APPLY", "build_rc": $BUILD,
 "demo_clean_rc": $CLEAN, "demo_with_patch_rc": $MUT, "baseline_with_patch": "$BASE"}, open("$OUT/confirm.json","w"), indent=1)
P
cat $OUT/confirm.json | tr '\n' ' '; echo
