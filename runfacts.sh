#!/bin/bash
# usage: runfacts.sh <out.json> [extra rustflags]
set -e
OUT=$1; shift
T=$(mktemp -d /verif/.work/tgt.XXXXXX)
trap "rm -rf $T" EXIT
cd ${ORX_REPO:-/repo}
LD_LIBRARY_PATH=$(rustc +nightly --print sysroot)/lib RUSTFLAGS="-Zmir-opt-level=0 -Zinline-mir=no -Awarnings $*" RUSTC_WORKSPACE_WRAPPER=/verif/engine/orxfacts/target/release/orxfacts ORXFACTS_OUT=$OUT CARGO_TARGET_DIR=$T CARGO_NET_OFFLINE=true cargo +nightly check --offline --lib 2>&1 | tail -20
