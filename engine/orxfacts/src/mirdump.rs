use crate::json::W;
use rustc_hir::def::DefKind;
use rustc_hir::def_id::DefId;
use rustc_middle::mir::*;
use rustc_middle::ty::print::with_no_trimmed_paths;
use rustc_middle::ty::{self, Ty, TyCtxt};
use rustc_span::Span;

pub fn did_key(did: DefId) -> String {
    format!("{}:{}", did.krate.as_u32(), did.index.as_u32())
}

pub fn path_of(tcx: TyCtxt<'_>, did: DefId) -> String {
    with_no_trimmed_paths!(tcx.def_path_str(did))
}

pub fn ty_str(ty: Ty<'_>) -> String {
    with_no_trimmed_paths!(format!("{}", ty))
}

pub fn loc(tcx: TyCtxt<'_>, span: Span, w: &mut W) {
    // location of the outermost call site (user source), plus macro/desugaring origin
    let cs = span.source_callsite();
    let sm = tcx.sess.source_map();
    let lo = sm.lookup_char_pos(cs.lo());
    let hi = sm.lookup_char_pos(cs.hi());
    w.obj_begin();
    w.kstr("file", &format!("{}", lo.file.name.prefer_local_unconditionally()));
    w.knum("line", lo.line as i128);
    w.knum("col", lo.col.0 as i128 + 1);
    w.knum("line_hi", hi.line as i128);
    if span.from_expansion() {
        let ed = span.ctxt().outer_expn_data();
        let k = match ed.kind {
            rustc_span::ExpnKind::Macro(_, name) => {
                if let Some(m) = ed.macro_def_id {
                    format!("macro:{}", path_of(tcx, m))
                } else {
                    format!("macro:{}", name)
                }
            }
            rustc_span::ExpnKind::Desugaring(d) => format!("desugar:{:?}", d),
            rustc_span::ExpnKind::AstPass(p) => format!("astpass:{:?}", p),
            rustc_span::ExpnKind::Root => "root".to_string(),
        };
        w.kstr("expn", &k);
        // outermost macro in the expansion chain
        let mut s = span;
        let mut outer = String::new();
        let mut guard = 0;
        while s.from_expansion() && guard < 32 {
            let ed = s.ctxt().outer_expn_data();
            if let rustc_span::ExpnKind::Macro(_, name) = ed.kind {
                outer = match ed.macro_def_id {
                    Some(m) => path_of(tcx, m),
                    None => name.to_string(),
                };
            }
            s = ed.call_site;
            guard += 1;
        }
        if !outer.is_empty() {
            w.kstr("outer_macro", &outer);
        }
    }
    w.obj_end();
}

// ---------------------------------------------------------------------------------------------
// types

pub fn ty_json<'tcx>(tcx: TyCtxt<'tcx>, ty: Ty<'tcx>, w: &mut W, depth: usize) {
    w.obj_begin();
    w.kstr("s", &ty_str(ty));
    if depth > 0 {
        match ty.kind() {
            ty::Adt(def, args) => {
                w.kstr("k", "adt");
                w.kstr("adt", &path_of(tcx, def.did()));
                w.kbool("local", def.did().is_local());
                w.key("args");
                w.arr_begin();
                for a in args.iter() {
                    if let Some(t) = a.as_type() {
                        ty_json(tcx, t, w, depth - 1);
                    } else {
                        w.obj_begin();
                        w.kstr("s", &with_no_trimmed_paths!(format!("{}", a)));
                        w.kstr("k", if a.as_const().is_some() { "const" } else { "region" });
                        w.obj_end();
                    }
                }
                w.arr_end();
            }
            ty::Ref(_, inner, m) => {
                w.kstr("k", "ref");
                w.kbool("mut", m.is_mut());
                w.key("inner");
                ty_json(tcx, *inner, w, depth - 1);
            }
            ty::RawPtr(inner, m) => {
                w.kstr("k", "ptr");
                w.kbool("mut", m.is_mut());
                w.key("inner");
                ty_json(tcx, *inner, w, depth - 1);
            }
            ty::Param(p) => {
                w.kstr("k", "param");
                w.kstr("name", p.name.as_str());
            }
            ty::Slice(inner) => {
                w.kstr("k", "slice");
                w.key("inner");
                ty_json(tcx, *inner, w, depth - 1);
            }
            ty::Array(inner, len) => {
                w.kstr("k", "array");
                w.kstr("len", &with_no_trimmed_paths!(format!("{}", len)));
                w.key("inner");
                ty_json(tcx, *inner, w, depth - 1);
            }
            ty::Tuple(ts) => {
                w.kstr("k", "tuple");
                w.key("elems");
                w.arr_begin();
                for t in ts.iter() {
                    ty_json(tcx, t, w, depth - 1);
                }
                w.arr_end();
            }
            ty::Closure(did, _) => {
                w.kstr("k", "closure");
                w.kstr("def", &did_key(*did));
            }
            ty::FnDef(did, _) => {
                w.kstr("k", "fndef");
                w.kstr("def", &did_key(*did));
                w.kstr("path", &path_of(tcx, *did));
            }
            ty::Alias(_) => {
                w.kstr("k", "alias");
            }
            ty::Bool => w.kstr("k", "bool"),
            ty::Uint(_) | ty::Int(_) => w.kstr("k", "int"),
            ty::Never => w.kstr("k", "never"),
            _ => w.kstr("k", "other"),
        }
    }
    w.obj_end();
}

// ---------------------------------------------------------------------------------------------
// places / operands

fn place_json<'tcx>(tcx: TyCtxt<'tcx>, body: &Body<'tcx>, p: Place<'tcx>, w: &mut W) {
    w.obj_begin();
    w.knum("l", p.local.as_u32() as i128);
    w.key("p");
    w.arr_begin();
    for (base, elem) in p.iter_projections() {
        w.obj_begin();
        match elem {
            ProjectionElem::Deref => w.kstr("k", "deref"),
            ProjectionElem::Field(f, fty) => {
                w.kstr("k", "field");
                w.knum("i", f.as_u32() as i128);
                let bty = base.ty(&body.local_decls, tcx);
                if let ty::Adt(def, _) = bty.ty.kind() {
                    let vi = bty.variant_index.unwrap_or(rustc_abi::FIRST_VARIANT);
                    if def.is_enum() || def.is_struct() || def.is_union() {
                        if let Some(v) = def.variants().get(vi) {
                            if let Some(fd) = v.fields.get(f) {
                                w.kstr("name", fd.name.as_str());
                            }
                        }
                        w.kstr("adt", &path_of(tcx, def.did()));
                    }
                } else if let ty::Closure(..) = bty.ty.kind() {
                    w.kbool("upvar", true);
                }
                w.kstr("ty", &ty_str(fty));
            }
            ProjectionElem::Index(l) => {
                w.kstr("k", "index");
                w.knum("l", l.as_u32() as i128);
            }
            ProjectionElem::ConstantIndex { offset, min_length, from_end } => {
                w.kstr("k", "cindex");
                w.knum("offset", offset as i128);
                w.knum("min_length", min_length as i128);
                w.kbool("from_end", from_end);
            }
            ProjectionElem::Subslice { from, to, from_end } => {
                w.kstr("k", "subslice");
                w.knum("from", from as i128);
                w.knum("to", to as i128);
                w.kbool("from_end", from_end);
            }
            ProjectionElem::Downcast(name, vi) => {
                w.kstr("k", "downcast");
                w.knum("v", vi.as_u32() as i128);
                if let Some(n) = name {
                    w.kstr("name", n.as_str());
                }
            }
            ProjectionElem::OpaqueCast(_) => w.kstr("k", "opaquecast"),
            ProjectionElem::UnwrapUnsafeBinder(_) => w.kstr("k", "unwrapbinder"),
        }
        w.obj_end();
    }
    w.arr_end();
    w.obj_end();
}

fn fn_ref_json<'tcx>(
    tcx: TyCtxt<'tcx>,
    caller: DefId,
    def_id: DefId,
    args: ty::GenericArgsRef<'tcx>,
    w: &mut W,
) {
    w.kstr("path", &path_of(tcx, def_id));
    w.kstr("def", &did_key(def_id));
    w.kbool("local", def_id.is_local());
    w.kstr("krate", tcx.crate_name(def_id.krate).as_str());
    if let Some(n) = tcx.opt_item_name(def_id) {
        w.kstr("name", n.as_str());
    }
    w.kstr("full", &with_no_trimmed_paths!(tcx.def_path_str_with_args(def_id, args)));
    w.key("gargs");
    w.arr_begin();
    for a in args.iter() {
        if let Some(t) = a.as_type() {
            ty_json(tcx, t, w, 3);
        } else {
            w.obj_begin();
            w.kstr("s", &with_no_trimmed_paths!(format!("{}", a)));
            w.kstr("k", if a.as_const().is_some() { "const" } else { "region" });
            w.obj_end();
        }
    }
    w.arr_end();
    if matches!(tcx.def_kind(def_id), DefKind::Fn | DefKind::AssocFn) {
        let sig = tcx.fn_sig(def_id).instantiate_identity().skip_norm_wip().skip_binder();
        w.kbool("unsafe", sig.safety().is_unsafe());
    }
    if let Some(t) = tcx.trait_of_assoc(def_id) {
        w.kstr("trait", &path_of(tcx, t));
        w.kbool("trait_local", t.is_local());
        if args.len() > 0 {
            if let Some(st) = args[0].as_type() {
                w.key("self_ty");
                ty_json(tcx, st, w, 3);
            }
        }
    }
    if let Some(i) = tcx.impl_of_assoc(def_id) {
        w.kstr("impl", &did_key(i));
        let st = tcx.type_of(i).instantiate_identity().skip_norm_wip();
        w.key("impl_self_ty");
        ty_json(tcx, st, w, 2);
    }
    // resolution in the caller's environment
    let env = ty::TypingEnv::post_analysis(tcx, caller);
    if let Ok(Some(inst)) = ty::Instance::try_resolve(tcx, env, def_id, args) {
        let rd = inst.def_id();
        w.key("resolved");
        w.obj_begin();
        w.kstr("path", &path_of(tcx, rd));
        w.kstr("def", &did_key(rd));
        w.kbool("local", rd.is_local());
        w.kstr("kind", &format!("{:?}", inst.def).split('(').next().unwrap_or("").to_string());
        w.kstr("full", &with_no_trimmed_paths!(tcx.def_path_str_with_args(rd, inst.args)));
        w.obj_end();
    }
}

fn const_json<'tcx>(tcx: TyCtxt<'tcx>, caller: DefId, c: &ConstOperand<'tcx>, w: &mut W) {
    w.obj_begin();
    w.kstr("k", "const");
    let ty = c.const_.ty();
    w.kstr("ty", &ty_str(ty));
    w.kstr("s", &with_no_trimmed_paths!(format!("{}", c.const_)));
    match ty.kind() {
        ty::FnDef(def_id, args) => {
            w.key("fn");
            w.obj_begin();
            fn_ref_json(tcx, caller, *def_id, args, w);
            w.obj_end();
        }
        ty::Uint(_) | ty::Int(_) | ty::Bool => {
            let env = ty::TypingEnv::post_analysis(tcx, caller);
            if let Some(si) = c.const_.try_eval_scalar_int(tcx, env) {
                let size = si.size();
                let bits = si.to_bits(size);
                w.key("int");
                if matches!(ty.kind(), ty::Int(_)) {
                    w.num(size.sign_extend(bits) as i128);
                } else {
                    w.unum(bits);
                }
                w.knum("bits", size.bits() as i128);
            }
        }
        ty::Adt(adt_def, _) if adt_def.is_enum() && adt_def.is_payloadfree() => {
            // a named constant of a field-less enum (`const READ: Ordering = Ordering::Acquire`): its variant
            let env = ty::TypingEnv::post_analysis(tcx, caller);
            if let Some(si) = c.const_.try_eval_scalar_int(tcx, env) {
                let size = si.size();
                let bits = si.to_bits(size);
                for (vi, d) in adt_def.discriminants(tcx) {
                    let mask = if size.bits() >= 128 { u128::MAX } else { (1u128 << size.bits()) - 1 };
                    if (d.val & mask) == bits {
                        w.kstr("variant", adt_def.variant(vi).name.as_str());
                    }
                }
            }
        }
        _ => {}
    }
    if let Const::Unevaluated(uv, _) = c.const_ {
        if let Some(p) = uv.promoted {
            w.kstr("promoted", &format!("{}#p{}", did_key(uv.def), p.as_u32()));
        }
    }
    if let Const::Ty(_, ct) = c.const_ {
        if let ty::ConstKind::Param(p) = ct.kind() {
            w.kstr("const_param", p.name.as_str());
        }
    }
    w.obj_end();
}

fn operand_json<'tcx>(
    tcx: TyCtxt<'tcx>,
    caller: DefId,
    body: &Body<'tcx>,
    o: &Operand<'tcx>,
    w: &mut W,
) {
    match o {
        Operand::Copy(p) => {
            w.obj_begin();
            w.kstr("k", "copy");
            w.key("place");
            place_json(tcx, body, *p, w);
            w.obj_end();
        }
        Operand::Move(p) => {
            w.obj_begin();
            w.kstr("k", "move");
            w.key("place");
            place_json(tcx, body, *p, w);
            w.obj_end();
        }
        Operand::Constant(c) => const_json(tcx, caller, c, w),
        other => {
            w.obj_begin();
            w.kstr("k", "runtime_checks");
            w.kstr("s", &format!("{:?}", other));
            w.obj_end();
        }
    }
}

fn rvalue_json<'tcx>(
    tcx: TyCtxt<'tcx>,
    caller: DefId,
    body: &Body<'tcx>,
    rv: &Rvalue<'tcx>,
    w: &mut W,
) {
    w.obj_begin();
    match rv {
        Rvalue::Use(o, _) => {
            w.kstr("k", "use");
            w.key("op");
            operand_json(tcx, caller, body, o, w);
        }
        Rvalue::Repeat(o, n) => {
            w.kstr("k", "repeat");
            w.key("op");
            operand_json(tcx, caller, body, o, w);
            w.kstr("n", &with_no_trimmed_paths!(format!("{}", n)));
        }
        Rvalue::Ref(_, bk, p) => {
            w.kstr("k", "ref");
            w.kstr(
                "bk",
                match bk {
                    BorrowKind::Shared => "shared",
                    BorrowKind::Fake(_) => "fake",
                    BorrowKind::Mut { .. } => "mut",
                },
            );
            w.key("place");
            place_json(tcx, body, *p, w);
        }
        Rvalue::ThreadLocalRef(d) => {
            w.kstr("k", "tls");
            w.kstr("path", &path_of(tcx, *d));
        }
        Rvalue::RawPtr(k, p) => {
            w.kstr("k", "rawptr");
            w.kstr("pk", &format!("{:?}", k));
            w.key("place");
            place_json(tcx, body, *p, w);
        }
        Rvalue::Cast(k, o, t) => {
            w.kstr("k", "cast");
            w.kstr("ck", &format!("{:?}", k));
            w.key("op");
            operand_json(tcx, caller, body, o, w);
            w.kstr("ty", &ty_str(*t));
        }
        Rvalue::BinaryOp(op, ab) => {
            w.kstr("k", "binop");
            w.kstr("op", &format!("{:?}", op));
            w.key("a");
            operand_json(tcx, caller, body, &ab.0, w);
            w.key("b");
            operand_json(tcx, caller, body, &ab.1, w);
        }
        Rvalue::UnaryOp(op, a) => {
            w.kstr("k", "unop");
            w.kstr("op", &format!("{:?}", op));
            w.key("a");
            operand_json(tcx, caller, body, a, w);
        }
        Rvalue::Discriminant(p) => {
            w.kstr("k", "discr");
            w.key("place");
            place_json(tcx, body, *p, w);
            let pty = p.ty(&body.local_decls, tcx).ty;
            w.kstr("ty", &ty_str(pty));
            if let ty::Adt(def, _) = pty.kind() {
                w.kstr("adt", &path_of(tcx, def.did()));
                if def.is_enum() {
                    w.key("variants");
                    w.obj_begin();
                    for (vi, d) in def.discriminants(tcx) {
                        w.kstr(&d.val.to_string(), def.variant(vi).name.as_str());
                    }
                    w.obj_end();
                }
            }
        }
        Rvalue::Aggregate(kind, ops) => {
            w.kstr("k", "aggregate");
            match &**kind {
                AggregateKind::Array(_) => w.kstr("ak", "array"),
                AggregateKind::Tuple => w.kstr("ak", "tuple"),
                AggregateKind::Adt(did, vi, _, _, active) => {
                    w.kstr("ak", "adt");
                    w.kstr("adt", &path_of(tcx, *did));
                    let def = tcx.adt_def(*did);
                    w.knum("variant", vi.as_u32() as i128);
                    w.kstr("variant_name", def.variant(*vi).name.as_str());
                    w.key("field_names");
                    w.arr_begin();
                    for f in def.variant(*vi).fields.iter() {
                        w.str(f.name.as_str());
                    }
                    w.arr_end();
                    if let Some(a) = active {
                        w.knum("active_field", a.as_u32() as i128);
                    }
                }
                AggregateKind::Closure(did, _) => {
                    w.kstr("ak", "closure");
                    w.kstr("def", &did_key(*did));
                }
                AggregateKind::RawPtr(_, m) => {
                    w.kstr("ak", "rawptr");
                    w.kbool("mut", m.is_mut());
                }
                _ => w.kstr("ak", "other"),
            }
            w.key("ops");
            w.arr_begin();
            for o in ops.iter() {
                operand_json(tcx, caller, body, o, w);
            }
            w.arr_end();
        }
        Rvalue::CopyForDeref(p) => {
            w.kstr("k", "copy_for_deref");
            w.key("place");
            place_json(tcx, body, *p, w);
        }
        Rvalue::WrapUnsafeBinder(o, _) => {
            w.kstr("k", "wrapbinder");
            w.key("op");
            operand_json(tcx, caller, body, o, w);
        }
    }
    w.obj_end();
}

fn unwind_json(u: &UnwindAction, w: &mut W) {
    match u {
        UnwindAction::Continue => w.str("continue"),
        UnwindAction::Unreachable => w.str("unreachable"),
        UnwindAction::Terminate(_) => w.str("terminate"),
        UnwindAction::Cleanup(bb) => w.num(bb.as_u32() as i128),
    }
}

fn terminator_json<'tcx>(
    tcx: TyCtxt<'tcx>,
    caller: DefId,
    body: &Body<'tcx>,
    t: &Terminator<'tcx>,
    w: &mut W,
) {
    w.obj_begin();
    w.key("loc");
    loc(tcx, t.source_info.span, w);
    match &t.kind {
        TerminatorKind::Goto { target } => {
            w.kstr("k", "goto");
            w.knum("target", target.as_u32() as i128);
        }
        TerminatorKind::SwitchInt { discr, targets } => {
            w.kstr("k", "switch");
            w.key("discr");
            operand_json(tcx, caller, body, discr, w);
            w.kstr("discr_ty", &ty_str(discr.ty(&body.local_decls, tcx)));
            w.key("targets");
            w.arr_begin();
            for (v, bb) in targets.iter() {
                w.arr_begin();
                w.unum(v);
                w.num(bb.as_u32() as i128);
                w.arr_end();
            }
            w.arr_end();
            w.knum("otherwise", targets.otherwise().as_u32() as i128);
        }
        TerminatorKind::UnwindResume => w.kstr("k", "resume"),
        TerminatorKind::UnwindTerminate(_) => w.kstr("k", "terminate"),
        TerminatorKind::Return => w.kstr("k", "return"),
        TerminatorKind::Unreachable => w.kstr("k", "unreachable"),
        TerminatorKind::Drop { place, target, unwind, .. } => {
            w.kstr("k", "drop");
            w.key("place");
            place_json(tcx, body, *place, w);
            w.key("ty");
            ty_json(tcx, place.ty(&body.local_decls, tcx).ty, w, 3);
            w.knum("target", target.as_u32() as i128);
            w.key("unwind");
            unwind_json(unwind, w);
        }
        TerminatorKind::Call { func, args, destination, target, unwind, fn_span, .. } => {
            w.kstr("k", "call");
            w.key("func");
            operand_json(tcx, caller, body, func, w);
            w.key("args");
            w.arr_begin();
            for a in args.iter() {
                operand_json(tcx, caller, body, &a.node, w);
            }
            w.arr_end();
            w.key("dest");
            place_json(tcx, body, *destination, w);
            w.key("target");
            match target {
                Some(bb) => w.num(bb.as_u32() as i128),
                None => w.null(),
            }
            w.key("unwind");
            unwind_json(unwind, w);
            w.key("fn_loc");
            loc(tcx, *fn_span, w);
        }
        TerminatorKind::TailCall { .. } => w.kstr("k", "tailcall"),
        TerminatorKind::Assert { cond, expected, msg, target, unwind } => {
            w.kstr("k", "assert");
            w.key("cond");
            operand_json(tcx, caller, body, cond, w);
            w.kbool("expected", *expected);
            let mk = match &**msg {
                AssertKind::BoundsCheck { .. } => "BoundsCheck".to_string(),
                AssertKind::Overflow(op, _, _) => format!("Overflow:{:?}", op),
                AssertKind::OverflowNeg(_) => "OverflowNeg".to_string(),
                AssertKind::DivisionByZero(_) => "DivisionByZero".to_string(),
                AssertKind::RemainderByZero(_) => "RemainderByZero".to_string(),
                AssertKind::MisalignedPointerDereference { .. } => "MisalignedPointer".to_string(),
                AssertKind::NullPointerDereference => "NullPointer".to_string(),
                other => format!("{:?}", other).split('(').next().unwrap_or("").to_string(),
            };
            w.kstr("msg", &mk);
            w.knum("target", target.as_u32() as i128);
            w.key("unwind");
            unwind_json(unwind, w);
        }
        TerminatorKind::FalseEdge { real_target, .. } => {
            w.kstr("k", "goto");
            w.knum("target", real_target.as_u32() as i128);
        }
        TerminatorKind::FalseUnwind { real_target, .. } => {
            w.kstr("k", "goto");
            w.knum("target", real_target.as_u32() as i128);
        }
        _ => w.kstr("k", "other"),
    }
    w.obj_end();
}

fn body_json<'tcx>(tcx: TyCtxt<'tcx>, did: DefId, w: &mut W) {
    let body: &Body<'tcx> = tcx.optimized_mir(did);
    body_json_with(tcx, did, body, None, w);
    for (p, pb) in tcx.promoted_mir(did).iter_enumerated() {
        body_json_with(tcx, did, pb, Some(p.as_u32()), w);
    }
}

fn body_json_with<'tcx>(tcx: TyCtxt<'tcx>, did: DefId, body: &Body<'tcx>, promoted: Option<u32>, w: &mut W) {
    w.obj_begin();
    match promoted {
        None => {
            w.kstr("def", &did_key(did));
            w.kstr("path", &path_of(tcx, did));
        }
        Some(p) => {
            w.kstr("def", &format!("{}#p{}", did_key(did), p));
            w.kstr("path", &format!("{}::promoted[{}]", path_of(tcx, did), p));
            w.kstr("promoted_of", &did_key(did));
        }
    }
    let kind = tcx.def_kind(did);
    if promoted.is_some() {
        w.kstr("kind", "Promoted");
    } else {
        w.kstr("kind", &format!("{:?}", kind));
    }
    if let Some(n) = tcx.opt_item_name(did) {
        w.kstr("name", n.as_str());
    }
    let root = tcx.typeck_root_def_id(did);
    w.kstr("root", &did_key(root));
    if let Some(p) = tcx.opt_parent(did) {
        w.kstr("parent", &did_key(p));
    }
    w.key("loc");
    loc(tcx, tcx.def_span(did), w);
    w.knum("arg_count", body.arg_count as i128);
    // locals
    w.key("locals");
    w.arr_begin();
    for (_, d) in body.local_decls.iter_enumerated() {
        w.obj_begin();
        w.key("ty");
        ty_json(tcx, d.ty, w, 4);
        w.kbool("mut", d.mutability.is_mut());
        w.obj_end();
    }
    w.arr_end();
    // debug names
    w.key("debug");
    w.arr_begin();
    for v in body.var_debug_info.iter() {
        w.obj_begin();
        w.kstr("name", v.name.as_str());
        match &v.value {
            VarDebugInfoContents::Place(p) => {
                w.key("place");
                place_json(tcx, body, *p, w);
            }
            VarDebugInfoContents::Const(c) => {
                w.kstr("const", &with_no_trimmed_paths!(format!("{}", c.const_)));
            }
        }
        if let Some(a) = v.argument_index {
            w.knum("arg", a as i128);
        }
        w.obj_end();
    }
    w.arr_end();
    // blocks
    w.key("blocks");
    w.arr_begin();
    for (_, bb) in body.basic_blocks.iter_enumerated() {
        w.obj_begin();
        w.kbool("cleanup", bb.is_cleanup);
        w.key("stmts");
        w.arr_begin();
        for s in bb.statements.iter() {
            match &s.kind {
                StatementKind::Assign(b) => {
                    w.obj_begin();
                    w.kstr("k", "assign");
                    w.key("place");
                    place_json(tcx, body, b.0, w);
                    w.key("rv");
                    rvalue_json(tcx, did, body, &b.1, w);
                    w.key("loc");
                    loc(tcx, s.source_info.span, w);
                    w.obj_end();
                }
                StatementKind::SetDiscriminant { place, variant_index } => {
                    w.obj_begin();
                    w.kstr("k", "setdiscr");
                    w.key("place");
                    place_json(tcx, body, **place, w);
                    w.knum("variant", variant_index.as_u32() as i128);
                    w.key("loc");
                    loc(tcx, s.source_info.span, w);
                    w.obj_end();
                }
                StatementKind::Intrinsic(i) => {
                    w.obj_begin();
                    w.kstr("k", "intrinsic");
                    match &**i {
                        NonDivergingIntrinsic::Assume(o) => {
                            w.kstr("ik", "assume");
                            w.key("op");
                            operand_json(tcx, did, body, o, w);
                        }
                        NonDivergingIntrinsic::CopyNonOverlapping(c) => {
                            w.kstr("ik", "copy_nonoverlapping");
                            w.key("src");
                            operand_json(tcx, did, body, &c.src, w);
                            w.key("dst");
                            operand_json(tcx, did, body, &c.dst, w);
                            w.key("count");
                            operand_json(tcx, did, body, &c.count, w);
                        }
                    }
                    w.key("loc");
                    loc(tcx, s.source_info.span, w);
                    w.obj_end();
                }
                StatementKind::StorageDead(l) => {
                    w.obj_begin();
                    w.kstr("k", "dead");
                    w.knum("l", l.as_u32() as i128);
                    w.obj_end();
                }
                _ => {}
            }
        }
        w.arr_end();
        w.key("term");
        terminator_json(tcx, did, body, bb.terminator(), w);
        w.obj_end();
    }
    w.arr_end();
    w.obj_end();
}

pub fn dump_bodies(tcx: TyCtxt<'_>, w: &mut W) {
    w.arr_begin();
    for ldid in tcx.hir_body_owners() {
        let did = ldid.to_def_id();
        match tcx.def_kind(did) {
            DefKind::Fn | DefKind::AssocFn | DefKind::Closure => {}
            _ => continue,
        }
        body_json(tcx, did, w);
    }
    w.arr_end();
}
