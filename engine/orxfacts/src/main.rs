// orxfacts — fact extractor for the static checks in /verif.
//
// Used as RUSTC_WORKSPACE_WRAPPER under `cargo +nightly check --lib`. For the crate named by
// ORXFACTS_CRATE (default: orx_concurrent_iter) it dumps the type-checked program (MIR bodies with
// resolved callees, ADTs, traits, impls, the auto-trait audit of `unsafe impl Send/Sync`) as one JSON
// file at ORXFACTS_OUT. All other crates are compiled unchanged.
#![feature(rustc_private)]

extern crate rustc_abi;
extern crate rustc_driver;
extern crate rustc_hir;
extern crate rustc_infer;
extern crate rustc_interface;
extern crate rustc_middle;
extern crate rustc_span;
extern crate rustc_trait_selection;

mod json;
mod mirdump;
mod tables;

use rustc_driver::Compilation;
use rustc_interface::interface::Compiler;
use rustc_middle::ty::TyCtxt;

struct Cb {
    out: String,
    krate: String,
}

impl rustc_driver::Callbacks for Cb {
    fn after_analysis<'tcx>(&mut self, _c: &Compiler, tcx: TyCtxt<'tcx>) -> Compilation {
        let name = tcx.crate_name(rustc_hir::def_id::LOCAL_CRATE).to_string();
        if name != self.krate {
            return Compilation::Continue;
        }
        let mut w = json::W::new();
        w.obj_begin();
        w.key("crate");
        w.str(&name);
        w.key("opts");
        w.obj_begin();
        w.key("overflow_checks");
        w.bool(tcx.sess.overflow_checks());
        w.key("debug_assertions");
        w.bool(tcx.sess.opts.debug_assertions);
        w.key("ub_checks");
        w.bool(tcx.sess.ub_checks());
        w.obj_end();
        w.key("bodies");
        mirdump::dump_bodies(tcx, &mut w);
        w.key("adts");
        tables::dump_adts(tcx, &mut w);
        w.key("traits");
        tables::dump_traits(tcx, &mut w);
        w.key("impls");
        tables::dump_impls(tcx, &mut w);
        w.key("fns");
        tables::dump_fns(tcx, &mut w);
        w.obj_end();
        std::fs::write(&self.out, w.finish()).expect("orxfacts: cannot write facts file");
        Compilation::Continue
    }
}

fn main() {
    let args: Vec<String> = std::env::args().collect();
    // argv = [wrapper, rustc, args...]
    let mut a = vec!["rustc".to_string()];
    a.extend(args.iter().skip(2).cloned());
    let out = std::env::var("ORXFACTS_OUT").unwrap_or_else(|_| "/dev/null".to_string());
    let krate =
        std::env::var("ORXFACTS_CRATE").unwrap_or_else(|_| "orx_concurrent_iter".to_string());
    let mut cb = Cb { out, krate };
    rustc_driver::run_compiler(&a, &mut cb);
}
