use crate::json::W;
use crate::mirdump::{did_key, loc, path_of, ty_json, ty_str};
use rustc_hir::def::DefKind;
use rustc_hir::def_id::DefId;
use rustc_infer::infer::TyCtxtInferExt;
use rustc_middle::ty::print::with_no_trimmed_paths;
use rustc_middle::ty::{self, Ty, TyCtxt};
use rustc_span::sym;
use rustc_trait_selection::infer::InferCtxtExt;

fn local_defs(tcx: TyCtxt<'_>) -> Vec<DefId> {
    let mut v: Vec<DefId> = tcx.hir_crate_items(()).definitions().map(|d| d.to_def_id()).collect();
    v.sort_by_key(|d| d.index.as_u32());
    v
}

fn predicates_json(tcx: TyCtxt<'_>, did: DefId, w: &mut W) {
    w.arr_begin();
    let preds = tcx.predicates_of(did).instantiate_identity(tcx);
    for p in preds.predicates.iter() {
        w.str(&with_no_trimmed_paths!(format!("{}", p.skip_norm_wip())));
    }
    w.arr_end();
}

fn generics_json(tcx: TyCtxt<'_>, did: DefId, w: &mut W) {
    w.arr_begin();
    let g = tcx.generics_of(did);
    for i in 0..g.count() {
        let p = g.param_at(i, tcx);
        w.obj_begin();
        w.kstr("name", p.name.as_str());
        w.kstr(
            "kind",
            match p.kind {
                ty::GenericParamDefKind::Lifetime => "lifetime",
                ty::GenericParamDefKind::Type { .. } => "type",
                ty::GenericParamDefKind::Const { .. } => "const",
            },
        );
        w.obj_end();
    }
    w.arr_end();
}

pub fn dump_adts(tcx: TyCtxt<'_>, w: &mut W) {
    w.arr_begin();
    for did in local_defs(tcx) {
        match tcx.def_kind(did) {
            DefKind::Struct | DefKind::Enum | DefKind::Union => {}
            _ => continue,
        }
        let def = tcx.adt_def(did);
        w.obj_begin();
        w.kstr("def", &did_key(did));
        w.kstr("path", &path_of(tcx, did));
        w.kstr("name", tcx.item_name(did).as_str());
        w.kstr("kind", &format!("{:?}", tcx.def_kind(did)));
        w.kbool("reachable", tcx.effective_visibilities(()).is_reachable(did.expect_local()));
        w.key("loc");
        loc(tcx, tcx.def_span(did), w);
        w.key("generics");
        generics_json(tcx, did, w);
        w.key("predicates");
        predicates_json(tcx, did, w);
        w.key("variants");
        w.arr_begin();
        for v in def.variants().iter() {
            w.obj_begin();
            w.kstr("name", v.name.as_str());
            w.key("fields");
            w.arr_begin();
            for f in v.fields.iter() {
                w.obj_begin();
                w.kstr("name", f.name.as_str());
                w.kbool("pub", f.vis.is_public());
                let fty = tcx.type_of(f.did).instantiate_identity().skip_norm_wip();
                w.key("ty");
                ty_json(tcx, fty, w, 5);
                w.obj_end();
            }
            w.arr_end();
            w.obj_end();
        }
        w.arr_end();
        match tcx.adt_destructor(did) {
            Some(d) => {
                w.kstr("drop_fn", &did_key(d.did));
            }
            None => {
                w.key("drop_fn");
                w.null();
            }
        }
        w.obj_end();
    }
    w.arr_end();
}

pub fn dump_traits(tcx: TyCtxt<'_>, w: &mut W) {
    w.arr_begin();
    for did in local_defs(tcx) {
        if tcx.def_kind(did) != DefKind::Trait {
            continue;
        }
        w.obj_begin();
        w.kstr("def", &did_key(did));
        w.kstr("path", &path_of(tcx, did));
        w.kstr("name", tcx.item_name(did).as_str());
        w.kbool("reachable", tcx.effective_visibilities(()).is_reachable(did.expect_local()));
        w.kbool("exported", tcx.effective_visibilities(()).is_exported(did.expect_local()));
        w.kbool("unsafe", tcx.trait_def(did).safety.is_unsafe());
        w.key("loc");
        loc(tcx, tcx.def_span(did), w);
        w.key("generics");
        generics_json(tcx, did, w);
        w.key("super_predicates");
        w.arr_begin();
        for pp in tcx.explicit_super_predicates_of(did).iter_identity_copied() {
            let (p, _) = pp.skip_norm_wip();
            w.str(&with_no_trimmed_paths!(format!("{}", p)));
        }
        w.arr_end();
        w.key("predicates");
        predicates_json(tcx, did, w);
        w.key("items");
        w.arr_begin();
        for it in tcx.associated_items(did).in_definition_order() {
            let Some(name) = it.opt_name() else { continue };
            w.obj_begin();
            w.kstr("name", name.as_str());
            w.kstr("def", &did_key(it.def_id));
            w.kstr("kind", &format!("{:?}", it.kind).split(|c| c == '{' || c == '(' || c == ' ').next().unwrap_or(""));
            w.kbool("has_default", it.defaultness(tcx).has_value());
            if it.is_type() {
                w.key("bounds");
                w.arr_begin();
                for cc in tcx.explicit_item_bounds(it.def_id).iter_identity_copied() {
                    let (c, _) = cc.skip_norm_wip();
                    w.str(&with_no_trimmed_paths!(format!("{}", c)));
                }
                w.arr_end();
            }
            w.obj_end();
        }
        w.arr_end();
        w.obj_end();
    }
    w.arr_end();
}

fn peel<'tcx>(tcx: TyCtxt<'tcx>, mut t: Ty<'tcx>, peeled: &mut Vec<String>) -> Ty<'tcx> {
    loop {
        if let ty::Adt(def, args) = t.kind() {
            let p = path_of(tcx, def.did());
            if p == "std::cell::UnsafeCell"
                || p == "core::cell::UnsafeCell"
                || p == "std::mem::ManuallyDrop"
                || p == "core::mem::ManuallyDrop"
                || p == "std::mem::MaybeUninit"
            {
                peeled.push(p);
                t = args.type_at(0);
                continue;
            }
        }
        if let ty::RawPtr(inner, _) = t.kind() {
            peeled.push("rawptr".to_string());
            t = *inner;
            continue;
        }
        return t;
    }
}

fn implements<'tcx>(tcx: TyCtxt<'tcx>, env_of: DefId, tr: DefId, t: Ty<'tcx>) -> bool {
    let infcx = tcx.infer_ctxt().build(ty::TypingMode::non_body_analysis());
    infcx.type_implements_trait(tr, [t], tcx.param_env(env_of)).must_apply_modulo_regions()
}

pub fn dump_impls(tcx: TyCtxt<'_>, w: &mut W) {
    let send = tcx.get_diagnostic_item(sym::Send);
    let sync = tcx.get_diagnostic_item(sym::Sync);
    w.arr_begin();
    for did in local_defs(tcx) {
        let DefKind::Impl { of_trait } = tcx.def_kind(did) else { continue };
        w.obj_begin();
        w.kstr("def", &did_key(did));
        w.kstr("path", &path_of(tcx, did));
        w.key("loc");
        loc(tcx, tcx.def_span(did), w);
        let self_ty = tcx.type_of(did).instantiate_identity().skip_norm_wip();
        w.key("self_ty");
        ty_json(tcx, self_ty, w, 4);
        w.key("generics");
        generics_json(tcx, did, w);
        w.key("predicates");
        predicates_json(tcx, did, w);
        if of_trait {
            let tr = tcx.impl_trait_ref(did).instantiate_identity().skip_norm_wip();
            w.kstr("trait", &path_of(tcx, tr.def_id));
            w.kstr("trait_def", &did_key(tr.def_id));
            w.kbool("trait_local", tr.def_id.is_local());
            w.kstr("trait_ref", &with_no_trimmed_paths!(format!("{}", tr)));
            let header = tcx.impl_trait_header(did);
            w.kbool("unsafe", header.safety.is_unsafe());
            w.kstr("polarity", &format!("{:?}", header.polarity));
            // method map
            w.key("items");
            w.obj_begin();
            let map = tcx.impl_item_implementor_ids(did);
            for it in tcx.associated_items(tr.def_id).in_definition_order() {
                let Some(name) = it.opt_name() else { continue };
                w.key(name.as_str());
                match map.get(&it.def_id) {
                    Some(i) => {
                        w.obj_begin();
                        w.kstr("def", &did_key(*i));
                        if it.is_type() {
                            let t = tcx.type_of(*i).instantiate_identity().skip_norm_wip();
                            w.key("ty");
                            ty_json(tcx, t, w, 4);
                        }
                        w.obj_end();
                    }
                    None => w.str("default"),
                }
            }
            w.obj_end();
            // auto-trait audit
            let is_send = Some(tr.def_id) == send;
            let is_sync = Some(tr.def_id) == sync;
            if (is_send || is_sync) && send.is_some() && sync.is_some() {
                w.kstr("auto", if is_send { "Send" } else { "Sync" });
                w.key("audit");
                w.arr_begin();
                if let ty::Adt(def, args) = self_ty.kind() {
                    for f in def.all_fields() {
                        let fty = f.ty(tcx, args);
                        let mut peeled = vec![];
                        let inner = peel(tcx, fty, &mut peeled);
                        w.obj_begin();
                        w.kstr("field", f.name.as_str());
                        w.kstr("ty", &ty_str(fty));
                        w.kstr("inner", &ty_str(inner));
                        w.key("peeled");
                        w.arr_begin();
                        for p in &peeled {
                            w.str(p);
                        }
                        w.arr_end();
                        w.kbool("field_send", implements(tcx, did, send.unwrap(), fty));
                        w.kbool("field_sync", implements(tcx, did, sync.unwrap(), fty));
                        w.kbool("inner_send", implements(tcx, did, send.unwrap(), inner));
                        w.kbool("inner_sync", implements(tcx, did, sync.unwrap(), inner));
                        w.obj_end();
                    }
                }
                w.arr_end();
            }
        } else {
            w.key("items");
            w.obj_begin();
            for it in tcx.associated_items(did).in_definition_order() {
                let Some(name) = it.opt_name() else { continue };
                w.key(name.as_str());
                w.obj_begin();
                w.kstr("def", &did_key(it.def_id));
                w.obj_end();
            }
            w.obj_end();
        }
        w.obj_end();
    }
    w.arr_end();
}

// Signatures of all local fns / assoc fns (also trait methods without a body).
pub fn dump_fns(tcx: TyCtxt<'_>, w: &mut W) {
    w.arr_begin();
    for did in local_defs(tcx) {
        match tcx.def_kind(did) {
            DefKind::Fn | DefKind::AssocFn => {}
            _ => continue,
        }
        let sig = tcx.fn_sig(did).instantiate_identity().skip_norm_wip().skip_binder();
        w.obj_begin();
        w.kstr("def", &did_key(did));
        w.kstr("path", &path_of(tcx, did));
        w.kstr("name", tcx.item_name(did).as_str());
        w.kbool("unsafe", sig.safety().is_unsafe());
        w.kbool("reachable", tcx.effective_visibilities(()).is_reachable(did.expect_local()));
        w.kbool("exported", tcx.effective_visibilities(()).is_exported(did.expect_local()));
        w.kbool("pub", tcx.visibility(did).is_public());
        w.kbool("has_body", tcx.is_mir_available(did));
        w.key("loc");
        loc(tcx, tcx.def_span(did), w);
        w.key("inputs");
        w.arr_begin();
        for t in sig.inputs().iter() {
            ty_json(tcx, *t, w, 3);
        }
        w.arr_end();
        w.key("output");
        ty_json(tcx, sig.output(), w, 3);
        w.key("generics");
        generics_json(tcx, did, w);
        w.key("predicates");
        predicates_json(tcx, did, w);
        if let Some(ai) = tcx.opt_associated_item(did) {
            w.kbool("has_self", ai.is_method());
            match ai.container {
                ty::AssocContainer::Trait => {
                    w.kstr("container", "trait");
                    if let Some(t) = tcx.trait_of_assoc(did) {
                        w.kstr("trait", &path_of(tcx, t));
                        w.kstr("trait_def", &did_key(t));
                    }
                }
                ty::AssocContainer::InherentImpl => {
                    w.kstr("container", "inherent");
                }
                ty::AssocContainer::TraitImpl(r) => {
                    w.kstr("container", "trait_impl");
                    if let Ok(ti) = r {
                        w.kstr("trait_item", &did_key(ti));
                        if let Some(t) = tcx.trait_of_assoc(ti) {
                            w.kstr("trait", &path_of(tcx, t));
                            w.kstr("trait_def", &did_key(t));
                        }
                    }
                }
            }
            if let Some(i) = tcx.impl_of_assoc(did) {
                w.kstr("impl", &did_key(i));
                let st = tcx.type_of(i).instantiate_identity().skip_norm_wip();
                w.key("impl_self_ty");
                ty_json(tcx, st, w, 2);
            }
        } else {
            w.kstr("container", "free");
        }
        w.obj_end();
    }
    w.arr_end();
}
