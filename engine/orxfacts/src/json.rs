// Minimal JSON writer (no dependencies).
pub struct W {
    s: String,
    need_comma: Vec<bool>,
}

impl W {
    pub fn new() -> Self {
        W { s: String::with_capacity(1 << 20), need_comma: vec![false] }
    }
    fn pre(&mut self) {
        if let Some(l) = self.need_comma.last_mut() {
            if *l {
                self.s.push(',');
            }
            *l = true;
        }
    }
    pub fn obj_begin(&mut self) {
        self.pre();
        self.s.push('{');
        self.need_comma.push(false);
    }
    pub fn obj_end(&mut self) {
        self.need_comma.pop();
        self.s.push('}');
    }
    pub fn arr_begin(&mut self) {
        self.pre();
        self.s.push('[');
        self.need_comma.push(false);
    }
    pub fn arr_end(&mut self) {
        self.need_comma.pop();
        self.s.push(']');
    }
    pub fn key(&mut self, k: &str) {
        self.pre();
        self.raw_str(k);
        self.s.push(':');
        if let Some(l) = self.need_comma.last_mut() {
            *l = false;
        }
    }
    fn raw_str(&mut self, v: &str) {
        self.s.push('"');
        for c in v.chars() {
            match c {
                '"' => self.s.push_str("\\\""),
                '\\' => self.s.push_str("\\\\"),
                '\n' => self.s.push_str("\\n"),
                '\r' => self.s.push_str("\\r"),
                '\t' => self.s.push_str("\\t"),
                c if (c as u32) < 0x20 => self.s.push_str(&format!("\\u{:04x}", c as u32)),
                c => self.s.push(c),
            }
        }
        self.s.push('"');
    }
    pub fn str(&mut self, v: &str) {
        self.pre();
        self.raw_str(v);
    }
    pub fn bool(&mut self, v: bool) {
        self.pre();
        self.s.push_str(if v { "true" } else { "false" });
    }
    pub fn null(&mut self) {
        self.pre();
        self.s.push_str("null");
    }
    pub fn num(&mut self, v: i128) {
        self.pre();
        self.s.push_str(&v.to_string());
    }
    pub fn unum(&mut self, v: u128) {
        self.pre();
        // JSON numbers above 2^53 are kept exact by Python's json module (arbitrary ints).
        self.s.push_str(&v.to_string());
    }
    pub fn kstr(&mut self, k: &str, v: &str) {
        self.key(k);
        self.str(v);
    }
    pub fn kbool(&mut self, k: &str, v: bool) {
        self.key(k);
        self.bool(v);
    }
    pub fn knum(&mut self, k: &str, v: i128) {
        self.key(k);
        self.num(v);
    }
    pub fn kopt_str(&mut self, k: &str, v: Option<&str>) {
        self.key(k);
        match v {
            Some(s) => self.str(s),
            None => self.null(),
        }
    }
    pub fn finish(self) -> String {
        self.s
    }
}
