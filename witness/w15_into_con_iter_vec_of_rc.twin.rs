//@ property: C14
//@ expect: ok
use orx_concurrent_iter::*;
use std::sync::Arc;
fn main() {
    let v = vec![Arc::new(1usize)];
    let it = IntoConcurrentIter::into_con_iter(v);
    let _ = it.next();
}
