//@ property: C14
//@ expect: ok
use orx_concurrent_iter::*;
fn main() {
    let v = vec![String::from("a")];
    println!("{}", v.len());
    let it = v.into_con_iter();
    let _ = it.next();
}
