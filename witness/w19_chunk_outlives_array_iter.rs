//@ property: C14
//@ expect: E0597
use orx_concurrent_iter::*;
fn main() {
    let chunk = {
        let it = ConIterOfArray::new([String::from("a"), String::from("b")]);
        it.next_chunk(2) //~ ERROR
    };
    drop(chunk);
}
