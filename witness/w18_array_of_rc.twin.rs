//@ property: C14
//@ expect: ok
use orx_concurrent_iter::*;
use std::sync::Arc;
fn main() {
    let a = [Arc::new(1usize), Arc::new(2usize)];
    let it = IntoConcurrentIter::into_con_iter(a);
    let _ = it.next();
}
