//@ property: C14 C19
//@ expect: ok
// ... and it is fully usable (also mutably) afterwards; a clone of an iterator progresses independently.
use orx_concurrent_iter::*;
fn main() {
    let mut v = vec![1usize, 2, 3];
    let it = v.con_iter();
    let _ = it.next();
    let other = it.clone();
    let _ = other.next();
    let _ = it.next();
    drop(it);
    drop(other);
    v.push(4);
    assert_eq!(v.len(), 4);
}
