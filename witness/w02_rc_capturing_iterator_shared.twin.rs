//@ property: C14
//@ expect: ok
use orx_concurrent_iter::*;
use std::sync::Arc;
fn main() {
    let rc = Arc::new(1usize);
    let it = ConIterOfIter::new((0..4usize).map(move |x| x + *rc));
    std::thread::scope(|s| {
        s.spawn(|| { let _ = it.next(); });
    });
}
