//@ property: C14
//@ expect: E0277
use orx_concurrent_iter::*;
struct NotClone(#[allow(dead_code)] usize);
fn main() {
    let v = vec![NotClone(1), NotClone(2)];
    let it = ConIterOfSlice::new(v.as_slice());
    let c: Cloned<'_, NotClone, ConIterOfSlice<'_, NotClone>> = it.cloned(); //~ ERROR
    let _ = c.next();
}
