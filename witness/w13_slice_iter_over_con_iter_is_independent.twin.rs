//@ property: C19
//@ expect: ok
// Non-consuming iteration over slice, vec, array and range; the collection stays usable; iterators are independent values.
use orx_concurrent_iter::*;
fn main() {
    let v = vec![String::from("a"), String::from("b")];
    let a = v.con_iter();
    let b = v.con_iter();
    let x: Option<&String> = a.next();
    let y: Option<&String> = b.next();
    assert!(std::ptr::eq(x.unwrap(), &v[0]));
    assert!(std::ptr::eq(y.unwrap(), &v[0]));
    let arr = [1usize, 2, 3];
    let c = arr.con_iter();
    let _: Option<&usize> = c.next();
    let s: &[usize] = &arr;
    let d = s.con_iter();
    let _: Option<&usize> = d.next();
    let r = 3usize..7;
    let e = r.con_iter();
    let _: Option<usize> = e.next();
    assert_eq!(r.len(), 4);
    assert_eq!(v.len(), 2);
    assert_eq!(arr.len(), 3);
}
