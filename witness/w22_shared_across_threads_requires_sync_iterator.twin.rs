//@ property: C14
//@ expect: ok
// All iterator kinds can be shared by reference across scoped threads when their elements are thread-safe.
use orx_concurrent_iter::*;
fn share<I: ConcurrentIter>(it: &I) where I::Item: std::fmt::Debug {
    std::thread::scope(|s| { for _ in 0..2 { s.spawn(|| { while let Some(x) = it.next() { let _ = format!("{:?}", x); } }); } });
}
fn main() {
    let v = vec![1usize, 2, 3];
    share(&v.con_iter());
    share(&v.con_iter().cloned());
    share(&v.con_iter().copied());
    share(&ConIterOfVec::new(v.clone()));
    share(&ConIterOfArray::new([1usize, 2, 3]));
    share(&ConIterOfRange::new(0usize..3));
    share(&ConIterOfIter::new(v.iter().map(|x| x + 1)));
}
