//@ property: C14
//@ expect: E0277
// Elements that are not Send must be rejected by the constructors.
use orx_concurrent_iter::*;
use std::rc::Rc;
fn main() {
    let v = vec![Rc::new(1usize), Rc::new(2usize)];
    let it = ConIterOfVec::new(v); //~ ERROR
    let _ = it.next();
}
