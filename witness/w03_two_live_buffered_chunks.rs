//@ property: C14
//@ expect: E0499
// A buffered chunk borrows the buffered iterator mutably: the next pull on the same buffer needs the previous chunk gone.
use orx_concurrent_iter::*;
fn main() {
    let it = ConIterOfIter::new((0..8usize).map(|x| x.to_string()));
    let mut buffered = it.buffered_iter(2);
    let first = buffered.next();
    let second = buffered.next(); //~ ERROR
    drop(first);
    drop(second);
}
