//@ property: C14
//@ expect: ok
use orx_concurrent_iter::*;
fn main() {
    let it = vec![String::from("a"), String::from("b"), String::from("c")].into_con_iter();
    let chunk = it.next_chunk(2);
    drop(chunk);
    let rest = it.into_seq_iter();
    drop(rest);
}
