//@ property: C14
//@ expect: ok
use orx_concurrent_iter::*;
#[derive(Clone)]
struct IsClone(#[allow(dead_code)] usize);
fn main() {
    let v = vec![IsClone(1), IsClone(2)];
    let it = ConIterOfSlice::new(v.as_slice());
    let c: Cloned<'_, IsClone, ConIterOfSlice<'_, IsClone>> = it.cloned();
    let _ = c.next();
}
