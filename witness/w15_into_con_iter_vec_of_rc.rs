//@ property: C14
//@ expect: E0599|E0277
// `into_con_iter` is not available for a vector whose elements are not thread-safe.
use orx_concurrent_iter::*;
use std::rc::Rc;
fn main() {
    let v = vec![Rc::new(1usize)];
    let it = IntoConcurrentIter::into_con_iter(v); //~ ERROR
    let _ = it.next();
}
