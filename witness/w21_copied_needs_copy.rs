//@ property: C14
//@ expect: E0277
use orx_concurrent_iter::*;
fn main() {
    let v = vec![String::from("a")];
    let it = ConIterOfSlice::new(v.as_slice());
    let c: Copied<'_, String, ConIterOfSlice<'_, String>> = it.copied(); //~ ERROR
    let _ = c.next();
}
