//@ property: C14
//@ expect: E0277
// An iterator capturing an Rc is not Send: a concurrent iterator wrapping it must not be shareable across threads.
use orx_concurrent_iter::*;
use std::rc::Rc;
fn main() {
    let rc = Rc::new(1usize);
    let it = ConIterOfIter::new((0..4usize).map(move |x| x + *rc));
    std::thread::scope(|s| {
        s.spawn(|| { let _ = it.next(); }); //~ ERROR
    });
}
