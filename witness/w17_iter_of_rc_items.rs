//@ property: C14
//@ expect: E0599|E0277
// An iterator yielding non-thread-safe items cannot be turned into a concurrent iterator.
use orx_concurrent_iter::*;
use std::rc::Rc;
fn main() {
    let it = IterIntoConcurrentIter::into_con_iter((0..3usize).map(Rc::new)); //~ ERROR
    let _ = it.next();
}
