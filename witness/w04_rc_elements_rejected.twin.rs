//@ property: C14
//@ expect: ok
use orx_concurrent_iter::*;
use std::sync::Arc;
fn main() {
    let v = vec![Arc::new(1usize), Arc::new(2usize)];
    let it = ConIterOfVec::new(v);
    let _ = it.next();
}
