//@ property: C14
//@ expect: ok
use orx_concurrent_iter::*;
fn main() {
    let x = 1usize;
    let arr = [&x, &x];
    let it = ConIterOfArray::new(arr);
    let _ = it.next();
}
