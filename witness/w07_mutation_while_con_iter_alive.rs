//@ property: C14 C19
//@ expect: E0502
// The collection cannot be modified while a non-consuming iterator over it is alive.
use orx_concurrent_iter::*;
fn main() {
    let mut v = vec![1usize, 2, 3];
    let it = v.con_iter();
    v.push(4); //~ ERROR
    let _ = it.next();
}
