//@ property: C14 C19
//@ expect: ok
use orx_concurrent_iter::*;
fn main() {
    let v = vec![String::from("a"), String::from("b")];
    let first = {
        let it = v.con_iter();
        it.next()
    };
    println!("{:?}", first);
}
