//@ property: C14
//@ expect: ok
use orx_concurrent_iter::*;
fn main() {
    let it = vec![String::from("a"), String::from("b")].into_con_iter();
    let chunk = {
        it.next_chunk(2)
    };
    drop(chunk);
}
