//@ property: C14
//@ expect: ok
use orx_concurrent_iter::*;
fn main() {
    let it = ConIterOfIter::new((0..8usize).map(|x| x.to_string()));
    let mut buffered = { it.buffered_iter(2) };
    let _ = buffered.next();
}
