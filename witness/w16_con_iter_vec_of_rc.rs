//@ property: C14
//@ expect: E0599|E0277
// `con_iter()` is not available for collections of non-thread-safe elements.
use orx_concurrent_iter::*;
use std::rc::Rc;
fn main() {
    let v = vec![Rc::new(1usize)];
    let it = ConcurrentIterable::con_iter(&v); //~ ERROR
    let _ = it.next();
}
