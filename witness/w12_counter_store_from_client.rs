//@ property: C14
//@ expect: E0599|E0603|E0624|E0433|E0432
// Safe client code must not be able to rewind the position counter of a consuming iterator.
use orx_concurrent_iter::iter::atomic_iter::AtomicIter;
use orx_concurrent_iter::*;
fn main() {
    let it = ConIterOfVec::new(vec![String::from("a"), String::from("b")]);
    let a = it.next();
    it.counter().store(0); //~ ERROR
    let b = it.next();
    drop(a);
    drop(b);
}
