//@ property: C14
//@ expect: ok
use orx_concurrent_iter::*;
fn main() {
    let it = ConIterOfArray::new([String::from("a"), String::from("b")]);
    let chunk = { it.next_chunk(2) };
    drop(chunk);
}
