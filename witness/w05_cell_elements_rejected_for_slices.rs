//@ property: C14
//@ expect: E0277
// Cell<T> is Send but not Sync: sharing references to it across threads must be rejected.
use orx_concurrent_iter::*;
use std::cell::Cell;
fn main() {
    let v = vec![Cell::new(1usize), Cell::new(2usize)];
    let it = ConIterOfSlice::new(v.as_slice()); //~ ERROR
    let _ = it.next();
}
