//@ property: C14
//@ expect: E0382
// A consuming iterator takes the collection by value.
use orx_concurrent_iter::*;
fn main() {
    let v = vec![String::from("a")];
    let it = v.into_con_iter();
    let _ = it.next();
    println!("{}", v.len()); //~ ERROR
}
