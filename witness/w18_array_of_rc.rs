//@ property: C14
//@ expect: E0599|E0277
use orx_concurrent_iter::*;
use std::rc::Rc;
fn main() {
    let a = [Rc::new(1usize), Rc::new(2usize)];
    let it = IntoConcurrentIter::into_con_iter(a); //~ ERROR
    let _ = it.next();
}
