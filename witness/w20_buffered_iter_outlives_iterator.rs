//@ property: C14
//@ expect: E0597
// The buffered iterator borrows the concurrent iterator.
use orx_concurrent_iter::*;
fn main() {
    let mut buffered = {
        let it = ConIterOfIter::new((0..8usize).map(|x| x.to_string()));
        it.buffered_iter(2) //~ ERROR
    };
    let _ = buffered.next();
}
