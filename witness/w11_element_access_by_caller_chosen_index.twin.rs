//@ property: C14
//@ expect: ok
use orx_concurrent_iter::*;
fn main() {
    let it = ConIterOfVec::new(vec![String::from("a"), String::from("b")]);
    let a = it.next();
    let b = it.next();
    drop(a);
    drop(b);
}
