//@ property: C14
//@ expect: E0597
// A one-shot chunk of a consuming vector iterator borrows the iterator: it cannot outlive it.
use orx_concurrent_iter::*;
fn main() {
    let chunk = {
        let it = vec![String::from("a"), String::from("b")].into_con_iter();
        it.next_chunk(2) //~ ERROR
    };
    drop(chunk);
}
