//@ property: C14
//@ expect: E0599|E0603|E0624|E0433|E0432
// Safe client code must not be able to move the same element out twice by choosing the index itself.
use orx_concurrent_iter::iter::atomic_iter::AtomicIter;
use orx_concurrent_iter::*;
fn main() {
    let it = ConIterOfVec::new(vec![String::from("a"), String::from("b")]);
    let a = it.get(0); //~ ERROR
    let b = it.get(0);
    drop(a);
    drop(b);
}
