//@ property: C14
//@ expect: ok
use orx_concurrent_iter::*;
use std::sync::atomic::AtomicUsize;
fn main() {
    let v = vec![AtomicUsize::new(1), AtomicUsize::new(2)];
    let it = ConIterOfSlice::new(v.as_slice());
    let _ = it.next();
}
