//@ property: C14
//@ expect: ok
use orx_concurrent_iter::*;
use std::sync::Arc;
fn main() {
    let it = IterIntoConcurrentIter::into_con_iter((0..3usize).map(Arc::new));
    let _ = it.next();
}
