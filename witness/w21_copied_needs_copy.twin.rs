//@ property: C14
//@ expect: ok
use orx_concurrent_iter::*;
fn main() {
    let v = vec![1usize];
    let it = ConIterOfSlice::new(v.as_slice());
    let c: Copied<'_, usize, ConIterOfSlice<'_, usize>> = it.copied();
    let _ = c.next();
}
