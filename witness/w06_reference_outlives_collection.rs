//@ property: C14 C19
//@ expect: E0597
// References delivered by con_iter() borrow the collection.
use orx_concurrent_iter::*;
fn main() {
    let first = {
        let v = vec![String::from("a"), String::from("b")];
        let it = v.con_iter(); //~ ERROR
        it.next()
    };
    println!("{:?}", first);
}
