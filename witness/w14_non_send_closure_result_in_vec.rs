//@ property: C14
//@ expect: E0277
// MutexGuard-like !Send elements (raw pointers) cannot be put into a consuming array iterator.
use orx_concurrent_iter::*;
fn main() {
    let x = 1usize;
    let arr = [&x as *const usize, &x as *const usize];
    let it = ConIterOfArray::new(arr); //~ ERROR
    let _ = it.next();
}
