use orx_concurrent_iter::*;
use std::sync::atomic::{AtomicBool, AtomicUsize, Ordering};
use std::sync::Arc;

/// wrapped iterator that records overlapping calls of `next` and blocks in its first call until released
struct Probe {
    inside: Arc<AtomicUsize>,
    overlap: Arc<AtomicBool>,
    entered: Arc<AtomicBool>,
    release: Arc<AtomicBool>,
    n: usize,
}
impl Iterator for Probe {
    type Item = usize;
    fn next(&mut self) -> Option<usize> {
        if self.inside.fetch_add(1, Ordering::SeqCst) != 0 {
            self.overlap.store(true, Ordering::SeqCst);
        }
        if self.n == 0 {
            self.entered.store(true, Ordering::SeqCst);
            while !self.release.load(Ordering::SeqCst) {
                std::thread::yield_now();
            }
        }
        self.n += 1;
        self.inside.fetch_sub(1, Ordering::SeqCst);
        Some(self.n)
    }
}

#[test]
fn skip_to_end_does_not_let_a_second_caller_in() {
    let inside = Arc::new(AtomicUsize::new(0));
    let overlap = Arc::new(AtomicBool::new(false));
    let entered = Arc::new(AtomicBool::new(false));
    let release = Arc::new(AtomicBool::new(false));
    let iter = Probe { inside, overlap: overlap.clone(), entered: entered.clone(), release: release.clone(), n: 0 }.into_con_iter();
    let iter = &iter;
    std::thread::scope(|s| {
        // A: holds ticket 0 inside the wrapped iterator
        s.spawn(move || {
            let _ = iter.next();
        });
        while !entered.load(Ordering::SeqCst) {
            std::thread::yield_now();
        }
        // main thread skips to the end while X and Y pull
        let x = s.spawn(move || {
            let _ = iter.next();
        });
        let y = s.spawn(move || {
            let _ = iter.next();
        });
        iter.skip_to_end();
        // give X and Y time to run into the wrapped iterator if they are (wrongly) admitted
        for _ in 0..50 {
            std::thread::yield_now();
        }
        let seen = overlap.load(Ordering::SeqCst);
        release.store(true, Ordering::SeqCst);
        let _ = x.join();
        let _ = y.join();
        assert!(!seen && !overlap.load(Ordering::SeqCst), "two threads were inside the wrapped iterator at the same time");
    });
}
