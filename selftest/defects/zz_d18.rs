use orx_concurrent_iter::*;

#[test]
fn range_end_is_permanent_after_overshooting_chunk_pulls() {
    let len: usize = 1 << 62;
    let iter = (0..len).con_iter();
    let mut somes = Vec::new();
    for k in 0..6 {
        if let Some(c) = iter.next_chunk(len) {
            somes.push((k, c.begin_idx, c.values.len()));
        }
    }
    assert_eq!(somes, vec![(0, 0, len)], "a pull after the end delivered positions again: {:?}", somes);
}

#[test]
fn slice_of_zst_end_is_permanent() {
    let v = vec![(); 1 << 62];
    let iter = v.con_iter();
    let mut somes = Vec::new();
    for k in 0..6 {
        if let Some(c) = iter.next_chunk(1 << 62) {
            somes.push((k, c.begin_idx, c.values.len()));
        }
    }
    assert_eq!(somes.len(), 1, "{:?}", somes);
}

#[test]
fn buffered_range_polled_after_the_end() {
    let len: usize = 1 << 62;
    let iter = (0..len).con_iter();
    let mut b = iter.buffered_iter(len);
    let mut somes = 0;
    for _ in 0..6 {
        if b.next().is_some() {
            somes += 1;
        }
    }
    assert_eq!(somes, 1);
}
