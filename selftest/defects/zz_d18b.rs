use orx_concurrent_iter::*;

#[test]
fn long_range_is_delivered_once() {
    let len: usize = (1 << 63) + 2;
    let iter = (0..len).con_iter();
    let mut total: u128 = 0;
    let mut begins = Vec::new();
    for n in [len - 1, len, len, 5, len] {
        if let Some(c) = iter.next_chunk(n) {
            begins.push((c.begin_idx, c.values.len()));
            total += c.values.len() as u128;
        }
    }
    assert_eq!(total, len as u128, "{:?}", begins);
    assert_eq!(begins, vec![(0, len - 1), (len - 1, 1)]);
}

#[test]
fn zst_slice_is_delivered_once() {
    let v = vec![(); (1 << 63) + 2];
    let len = v.len();
    let iter = v.con_iter();
    let mut total: u128 = 0;
    for n in [len - 1, len, len, 5, len] {
        if let Some(c) = iter.next_chunk(n) {
            total += c.values.len() as u128;
        }
    }
    assert_eq!(total, len as u128);
}
