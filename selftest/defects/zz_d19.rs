use orx_concurrent_iter::*;
use std::sync::atomic::{AtomicBool, AtomicUsize, Ordering};
use std::sync::Arc;

/// wrapped iterator that records overlapping calls of `next` and blocks in its first call until released
struct Probe {
    inside: Arc<AtomicUsize>,
    overlap: Arc<AtomicBool>,
    entered: Arc<AtomicBool>,
    release: Arc<AtomicBool>,
    n: usize,
}
impl Iterator for Probe {
    type Item = usize;
    fn next(&mut self) -> Option<usize> {
        if self.inside.fetch_add(1, Ordering::SeqCst) != 0 {
            self.overlap.store(true, Ordering::SeqCst);
        }
        if self.n == 0 {
            self.entered.store(true, Ordering::SeqCst);
            while !self.release.load(Ordering::SeqCst) {
                std::thread::yield_now();
            }
        }
        self.n += 1;
        self.inside.fetch_sub(1, Ordering::SeqCst);
        (self.n < 5).then_some(self.n)
    }
}

#[test]
fn huge_chunk_does_not_let_a_second_caller_in() {
    let inside = Arc::new(AtomicUsize::new(0));
    let overlap = Arc::new(AtomicBool::new(false));
    let entered = Arc::new(AtomicBool::new(false));
    let release = Arc::new(AtomicBool::new(false));
    let iter = Probe { inside, overlap: overlap.clone(), entered: entered.clone(), release: release.clone(), n: 0 }.into_con_iter();
    let iter = &iter;
    std::thread::scope(|s| {
        // A: a one-shot chunk pull of the largest chunk size; it holds positions [0, usize::MAX) and is inside the wrapped
        // iterator (blocked in its first call of next)
        s.spawn(move || {
            let _ = iter.next_chunk(usize::MAX).map(|c| c.values.count());
        });
        while !entered.load(Ordering::SeqCst) {
            std::thread::yield_now();
        }
        // X reserves position usize::MAX (the counter wraps to 0), then Y reserves position 0 - A's position
        let x = s.spawn(move || {
            let _ = iter.next_chunk(1).map(|c| c.values.count());
        });
        std::thread::sleep(std::time::Duration::from_millis(200));
        let y = s.spawn(move || {
            let _ = iter.next_chunk(1).map(|c| c.values.count());
        });
        std::thread::sleep(std::time::Duration::from_millis(200));
        let seen = overlap.load(Ordering::SeqCst);
        release.store(true, Ordering::SeqCst);
        let _ = x.join();
        let _ = y.join();
        assert!(!seen && !overlap.load(Ordering::SeqCst), "two threads were inside the wrapped iterator at the same time");
    });
}
