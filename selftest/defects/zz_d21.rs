use orx_concurrent_iter::*;

#[test]
fn single_pulls_after_the_end_of_a_long_range() {
    let len: usize = usize::MAX - 5;
    let iter = (0..len).con_iter();
    let c = iter.next_chunk(len).unwrap();
    assert_eq!((c.begin_idx, c.values.len()), (0, len));
    let mut after = Vec::new();
    for k in 0..10 {
        if let Some(x) = iter.next_id_and_value() {
            after.push((k, x.idx, x.value));
        }
    }
    assert!(after.is_empty(), "elements delivered after the end: {:?}", after);
}

#[test]
fn single_pulls_after_the_end_of_the_longest_range() {
    let len: usize = usize::MAX;
    let iter = (0..len).con_iter();
    let c = iter.next_chunk(len).unwrap();
    assert_eq!((c.begin_idx, c.values.len()), (0, len));
    for _ in 0..10 {
        assert!(iter.next_id_and_value().is_none());
    }
    assert!(iter.next_chunk(3).is_none());
}

#[test]
fn cloned_single_pulls_after_the_end() {
    let v = vec![(); usize::MAX - 2];
    let iter = v.con_iter().cloned();
    let c = iter.next_chunk(usize::MAX).unwrap();
    assert_eq!(c.values.len(), usize::MAX - 2);
    for _ in 0..10 {
        assert!(iter.next().is_none());
    }
}
