"""Property -> rules registry."""
import r_ticket

PROPS = {
    "C07": {
        "rules": [r_ticket.rule_ticket, r_ticket.rule_gate, r_ticket.rule_ord, r_ticket.rule_sticky, r_ticket.rule_cell],
        "floors": {},
        "explanation": "tbd",
    },
}
