"""Property -> rules registry, with the text that goes into evidence and MANIFEST (kept in one place)."""
import r_ticket
import r_m1
import r_ovf
import r_state
import r_fwd
import r_live
import r_own
import r_type
import r_paths

STD = "summaries of std functions (min/max/saturating_*, Option combinators, slice::get/index, Vec::split_off, " \
      "IntoIter, Iterator adaptors) are trusted as documented"
HEAP = "fields written through a pointer (chunk-iterator cursor, re-wrapped vector) are read flow-insensitively; the rules " \
       "that depend on their writers enumerate the writers explicitly"

PROPS = {
    "C01": {
        "title": "exactly-once delivery",
        "rules": [r_m1.rule_atom, r_m1.rule_one, r_m1.rule_prov, r_m1.rule_amt, r_m1.rule_clamp, r_m1.rule_endguard,
                  r_m1.rule_complete, r_m1.rule_ctor, r_ticket.rule_ticket, r_ticket.rule_gate, r_live.rule_amt_pub, r_m1.rule_exact, r_fwd.rule_siblings, r_paths.rule_paths, r_fwd.rule_wrap,
                  r_ovf.rule_ovf, r_ovf.rule_ovf_ticket,
                  r_live.rule_live, r_own.rule_view,
                  r_fwd.rule_fwd],
        "explanation": "Decides that the code is an instance of the fetch_add-interval protocol (DESIGN 1.2, M1/M2): for every "
                       "world (5 implementors + 4 adaptor instantiations) x every pull unit (single, one-shot chunk, buffered) "
                       "the unit is evaluated with crate-local callees inlined; rules: ATOM (who may write the counters; no "
                       "index from a counter load), ONE (exactly one reservation RMW, outside any loop), PROV (reported and "
                       "accessed indices are the reserved index, no arithmetic), AMT (extent min(begin+n, LEN) uses the reserved "
                       "n), CLAMP (accesses in bounds by guard facts), ENDGUARD/COMPLETE (Some only under idx < LEN; None only "
                       "under idx >= LEN; extent clamped to exactly LEN: nothing reserved is lost), TICKET/GATE/AMT.pub "
                       "(wrapped iterator touched only inside a held region entered on ticket == now-serving and gated by the "
                       "end flag; the now-serving counter advanced by the reservation), EXACT (buffered chunk of the wrapper "
                       "yields exactly the slots filled by this pull). Discharged = entailed by dominating guard facts / "
                       "structural identity of terms.",
        "declined": "the quantification over interleavings is discharged by the argument of DESIGN 1.2 (RMWs on one atomic are "
                    "totally ordered), not by exploring schedules; histories with counter wrap are outside the property",
        "technique": "static analysis: MIR dataflow + guard-fact entailment over inlined pull units (rustc_private driver)",
    },
    "C02": {
        "title": "index fidelity",
        "rules": [r_m1.rule_prov, r_m1.rule_atom, r_live.rule_amt_pub, r_m1.rule_exact, r_fwd.rule_each, r_fwd.rule_fwd, r_fwd.rule_wrap,
                  r_own.rule_view],
        "explanation": "PROV: every Next.idx / NextChunk.begin_idx and every storage access index is the reservation result "
                       "itself (for ranges: begin + start, the one permitted addition); ATOM.c: no index from a counter load; "
                       "AMT.pub: the ticket implementor advances now-serving by its full reservation (ticket == position); "
                       "EXACT: buffered chunks of the wrapper yield exactly this pull's slots in order; EACH.index: "
                       "enumerate_for_each passes (next.idx, next.value) / (chunk.begin_idx + i, value) with (i, value) from "
                       "chunk.values.enumerate(); FWD: adaptors rebuild chunks with the inner begin_idx.",
        "declined": "equality of contents with a sequential run (trusts slice::get, Range, the wrapped iterator)",
        "technique": "static analysis: term provenance over inlined MIR (no arithmetic between reservation and index)",
    },
    "C03": {
        "title": "chunk contract",
        "rules": [r_m1.rule_clamp, r_m1.rule_ctor, r_m1.rule_amt, r_m1.rule_prov, r_m1.rule_nonempty, r_m1.rule_exact, r_m1.rule_complete,
                  r_ovf.rule_ovf, r_ovf.rule_zero,
                  r_own.rule_view],
        "explanation": "CLAMP/AMT: a chunk is [begin, min(begin+n, LEN)) built from the reserved n; COMPLETE: clamped to exactly "
                       "LEN, so it is shorter than n only at the end; NONEMPTY: Some only under begin < end of the very extent "
                       "handed out; EXACT: the wrapper's buffered chunk announces filled - consumed and yields exactly that, "
                       "also after a partly consumed previous chunk; OVF: begin+n cannot overflow into an empty/wrapped extent; "
                       "ZERO: chunk size >= 1 where the buffered forms rely on it.",
        "declined": "nothing beyond trusting std chunk iterators (slice::Iter, Map<Range>) to be exact-size",
        "technique": "static analysis: guard-fact entailment on chunk extents; struct-invariant by writer enumeration",
    },
    "C04": {
        "title": "one linearizable cursor",
        "rules": [r_m1.rule_one, r_m1.rule_prov, r_m1.rule_atom, r_ticket.rule_ticket, r_ticket.rule_gate, r_live.rule_amt_pub,
                  r_ticket.rule_ord, r_fwd.rule_fwd, r_m1.rule_endguard, r_paths.rule_paths,
                  r_m1.rule_exact, r_m1.rule_amt, r_m1.rule_nonempty, r_m1.rule_complete,
                  r_ovf.rule_ovf_ticket,
                  r_live.rule_live],
        "explanation": "The structural content of linearizability: each pull has exactly one RMW on the position counter inside "
                       "the call (ONE), what it delivers is a function of that RMW's result only (PROV), the counter only grows "
                       "on pull paths and is never stored to by pulls (ATOM), the wrapper serves tickets on equality only and "
                       "advances by the reservation (TICKET, GATE, AMT.pub). Evidence names the linearisation point per unit. "
                       "What a reservation delivers is exactly its interval, in order: EXACT (slots of the re-used buffer), AMT, "
                       "NONEMPTY, COMPLETE.",
        "declined": "real-time order of concurrent histories as an observable (implied by the RMW lying inside the call interval)",
        "technique": "static analysis: unique-RMW-per-pull + provenance (shares rules with C01)",
    },
    "C05": {
        "title": "the end is permanent",
        "rules": [r_m1.rule_atom, r_m1.rule_endguard, r_m1.rule_complete, r_ticket.rule_sticky, r_state.rule_done,
                  r_ticket.rule_gate, r_state.rule_len, r_paths.rule_paths, r_state.rule_skip,
                  r_ovf.rule_ovf,
                  r_live.rule_live,
                  r_fwd.rule_fwd],
        "explanation": "ATOM.b: no pull stores to the position counter (it only grows); ENDGUARD: Some only under reserved idx < "
                       "LEN on the index itself with LEN immutable; STICKY: the end flag is only ever stored true; DONE-SET: "
                       "whenever the wrapped iterator returned None the flag is set before the pull returns (the exhausted "
                       "iterator is never polled again); GATE: admissions are gated by the flag; LEN: length queries answer 0 "
                       "once the flag is set and LEN - counter otherwise.",
        "declined": "behaviour after counter wrap (excluded by the property's quantifier)",
        "technique": "static analysis: writers table of the counters + must-pass-through on None edges",
    },
    "C06": {
        "title": "skip_to_end",
        "rules": [r_state.rule_skip, r_ticket.rule_sticky, r_ticket.rule_gate, r_state.rule_len, r_state.rule_seq,
                  r_own.rule_own, r_m1.rule_endguard,
                  r_fwd.rule_fwd],
        "explanation": "SKIP: early_exit stores a value >= LEN (borrowing sources), reserves >= LEN positions with one RMW "
                       "(consuming sources: OWN.d, the skipped interval is dropped exactly once), or sets the sticky flag "
                       "(wrapper) with every admission gated on it (GATE) so a wrapped counter cannot re-admit; all 7 "
                       "skip_to_end reach early_exit of the same object (SKIP.fwd); has_more/try_get_len answer No/0 (LEN); "
                       "into_seq_iter stays well-formed after a skip (SEQ clamp).",
        "declined": "-",
        "technique": "static analysis: entailment v >= LEN on the stored/reserved term; gate dominance",
    },
    "C07": {
        "title": "exclusive, ordered use of the wrapped iterator; no data races",
        "rules": [r_ticket.rule_ticket, r_ticket.rule_gate, r_ticket.rule_ord, r_ticket.rule_sticky, r_ticket.rule_cell,
                  r_live.rule_amt_pub, r_paths.rule_paths,
                  r_state.rule_skip, r_ovf.rule_ovf_ticket, r_ovf.rule_zero_ticket],
        "explanation": "ZERO.c: no buffered puller with chunk size 0 is handed out for the ticket-admitted source (a zero-size "
                       "reservation shares its ticket with the next caller); ORD: the load that admits a ticket holder is Acquire or stronger, every RMW that publishes is Release or "
                       "stronger (constants read from the resolved atomic calls through their wrappers), no use of the wrapped "
                       "iterator after the release; TICKET/GATE: the cell is touched only inside a held region entered through "
                       "the Equal edge of ticket == now-serving and the end flag false; CELL.d: no `&mut` reborrow of storage "
                       "behind an UnsafeCell in a function that can run concurrently, outside a held region; CELL.e: no user "
                       "callable besides the wrapped next() runs inside a held region.",
        "declined": "-",
        "technique": "static analysis: ordering constants + held-region (typestate) analysis on MIR",
    },
    "C08": {
        "title": "moved out or dropped exactly once",
        "rules": [r_own.rule_own, r_own.rule_view, r_m1.rule_prov, r_m1.rule_clamp, r_m1.rule_ctor, r_m1.rule_amt, r_state.rule_seq,
                  r_ovf.rule_ovf, r_m1.rule_one],
        "explanation": "OWN.a: raw element reads are the single move-out (index = reserved index < LEN) and the exclusive "
                       "remainder read over [split, LEN); OWN.b/OWN.view: owning views over reserved elements are handed on, "
                       "never dropped in place, yield each element once and drop the rest; OWN.c: Drop splits at the counter "
                       "(one read, no arithmetic, guarded/clamped) and skips only when counter > LEN; OWN.d: no blind store to "
                       "the counter of a consuming iterator, early_exit drops exactly [reserved, LEN); OWN.e: a non-destructive "
                       "remainder split is followed by marking the iterator exhausted; plus PROV/CLAMP/AMT/SEQ/OVF on the "
                       "consuming worlds.",
        "declined": "counting destructor runs; correctness of Vec::split_off / collect (trusted)",
        "technique": "static analysis: ownership ledger over MIR (elaborated drops, alias owners, writers of the counter)",
    },
    "C09": {
        "title": "progress",
        "rules": [r_live.rule_live, r_live.rule_amt_pub, r_ticket.rule_gate, r_state.rule_done, r_live.rule_unw, r_paths.rule_paths,
                  r_m1.rule_nonempty, r_m1.rule_endguard, r_m1.rule_complete, r_fwd.rule_each,
                  r_fwd.rule_fwd],
        "explanation": "LIVE.a: no function reachable from a pull of a known-size source contains a loop on an atomic load or a "
                       "blocking std call (complete decision of 'never waits'); LIVE.b: wait loops of the wrapper re-read "
                       "now-serving and exit on Equal, Less and the end flag; LIVE.c: from every admission every normal path to "
                       "a return releases (RMW on now-serving or end flag); LIVE.d: an admitted ticket is always continued; "
                       "LIVE.e: a reserved ticket is never abandoned (None only when passed / flag set / after admission); "
                       "AMT.pub: the release is by the full reservation. Termination of the default algorithms: their loops "
                       "end only on None (EACH), so a pull must not answer Some(empty chunk) on an exhausted source and must "
                       "report the end exactly at LEN (NONEMPTY, ENDGUARD, COMPLETE).",
        "declined": "liveness under a real (fair) scheduler as such",
        "technique": "static analysis: loop/SCC analysis with atomic-load dependence; must-pass-through on the CFG",
    },
    "C10": {
        "title": "into_seq_iter returns the remainder",
        "rules": [r_state.rule_seq, r_own.rule_own, r_fwd.rule_fwd, r_ovf.rule_ovf, r_m1.rule_prov, r_m1.rule_amt,
                  r_m1.rule_complete],
        "explanation": "SEQ: the result of each of the 7 into_seq_iter depends on exactly one read of the position counter, used "
                       "as skip count / split index / range offset without arithmetic, clamped to LEN where overshoot is not "
                       "tolerated; the wrapper returns the wrapped iterator itself; adaptors map the inner result by "
                       "clone/copy (FWD); OWN.c/OWN.e: the consuming variants split off exactly the remainder and leave "
                       "nothing for Drop; OVF: the range offset cannot overflow.",
        "declined": "-",
        "technique": "static analysis: dependence of the result term on one counter read; ancestor walk for arithmetic",
    },
    "C11": {
        "title": "try_get_len / has_more",
        "rules": [r_state.rule_len, r_state.rule_done, r_ticket.rule_sticky, r_m1.rule_atom, r_ovf.rule_ovf, r_ovf.rule_zero,
                  r_fwd.rule_siblings,
                  r_fwd.rule_fwd],
        "explanation": "LEN: try_get_len is LEN - counter under counter < LEN else 0 for the four known-size sources; the "
                       "wrapper answers 0 once the end flag is set, else captured-exact-length - counter; the length is "
                       "captured only when lower == upper; has_more maps None/Some(0)/Some(n) to Maybe/No/Yes(n) and is not "
                       "overridden; DONE-EVID: the flag is set only on evidence (early_exit, None from the wrapped iterator, "
                       "fewer elements than requested with n != 0, panic guard); DONE-SET/STICKY: once set it stays; OVF: "
                       "reservation amounts bounded by LEN so the counter (hence the reported length) cannot wrap back.",
        "declined": "'never increases under races' beyond: counter monotone, flag sticky",
        "technique": "static analysis: shape of the length term + evidence facts at every flag store",
    },
    "C12": {
        "title": "for_each / enumerate_for_each / fold",
        "rules": [r_fwd.rule_each, r_ovf.rule_zero, r_ovf.rule_ovf, r_m1.rule_one, r_ticket.rule_ord, r_fwd.rule_wrap,
                  r_m1.rule_endguard, r_m1.rule_nonempty, r_m1.rule_complete, r_m1.rule_prov, r_m1.rule_amt,
                  r_fwd.rule_fwd, r_state.rule_done],
        "explanation": "DONE (the sequence the algorithms visit ends where the wrapped iterator first returned None: flag set on "
                       "evidence only, on every path after a None, and before the ticket is handed on); EACH: the three trait defaults pass their arguments unchanged to the algorithms and no implementor "
                       "overrides them; in each algorithm chunk_size > 0 is asserted first (ZERO.a); the single-pull loop and "
                       "the buffered loop exit only on the None of the pull made in that iteration; every Some payload reaches "
                       "exactly one call of the user's function on every path (directly, via Iterator::for_each, or an inner "
                       "loop whose own exit is the chunk's None); indices are the pulled indices; fold threads one accumulator. "
                       "Every path through an algorithm runs one of its pull loops (or a private helper that does). "
                       "Exhaustion and exactly-once of the pulls the loops rest on: ONE, OVF amounts, ORD, and the pull-level "
                       "rules ENDGUARD / NONEMPTY (a pull never answers Some(empty), which would keep the buffered loop spinning "
                       "forever on an exhausted source), COMPLETE, PROV (reported index) and AMT are part of this check.",
        "declined": "the algebraic statement about combining fold results (depends on the user's operation)",
        "technique": "static analysis: natural-loop exit edges + must-pass-through of the closure call",
    },
    "C13": {
        "title": "cloned()/copied() are transparent",
        "rules": [r_fwd.rule_fwd],
        "explanation": "FWD: every method of Cloned/Copied and of their chunk pullers forwards to the same-named method of the one "
                       "inner iterator (Self-dispatch for next_id_and_value/next_chunk/skip_to_end), with parameters passed "
                       "positionally unchanged, and maps the result only by Option/Iterator::cloned|copied or a rebuilt "
                       "NextChunk with the inner begin_idx; the adaptor structs have no state besides the inner iterator; no "
                       "unsafe operation; the two adaptors agree method by method (FWD.iso).",
        "declined": "-",
        "technique": "static analysis: forwarding shape of result terms; sibling isomorphism",
    },
    "C14": {
        "title": "type-level safety",
        "rules": [r_type.rule_type, r_type.rule_surface, r_type.rule_wit_for("C14"),
                  r_own.rule_view, r_own.rule_own],
        "explanation": "OWN (last clause, two owners of one element): the ownership discipline of the consuming iterators — "
                       "move-outs, alias views, Drop / remainder split, early_exit, and what an unwinding out of Drop does to a "
                       "vector taken out of the storage (OWN.f); TYPE: for each of the unsafe impl Send/Sync, each field (looking through UnsafeCell/ManuallyDrop/raw "
                       "pointers) is Send/Sync under the impl's own predicates, asked of the compiler's trait solver; supertrait "
                       "and Item bounds of the public traits; SURFACE: no safe public function lets the caller choose the "
                       "index/ticket of a raw element access, no safe public mutator of a position counter is reachable; WIT: "
                       "13 client programs that must be rejected with a given error code on a marked line, each with a "
                       "compiling twin, compiled against the freshly built crate with the stable toolchain.",
        "declined": "-",
        "technique": "static analysis: trait-solver audit + public-surface reachability + compile-fail witnesses with twins",
    },
    "C15": {
        "title": "no leaks",
        "rules": [r_own.rule_leak, r_own.rule_own, r_own.rule_view, r_own.rule_leak_write],
        "explanation": "LEAK: every ManuallyDrop field owning heap memory is taken and dropped on every normal path of Drop::drop "
                       "(no re-wrap, no forget); leak primitives (mem::forget, Box::leak, into_raw*, ManuallyDrop::new) occur "
                       "only in constructors wrapping the consumed collection and in the exclusive remainder split's re-wrap; "
                       "OWN.c/d/e + OWN.view: every element not delivered is dropped by Drop, by early_exit or by the chunk "
                       "view (conservation).",
        "declined": "byte accounting and 'memory does not grow' as measurements",
        "technique": "static analysis: ManuallyDrop typestate on Drop paths + leak-primitive who-may-call table",
    },
    "C16": {
        "title": "boundary arithmetic",
        "rules": [r_ovf.rule_ovf, r_ovf.rule_zero, r_state.rule_seq, r_m1.rule_endguard, r_m1.rule_nonempty,
                  r_ovf.rule_ovf_ticket],
        "explanation": "OVF: every +, -, * on usize, every generic Idx addition and every fetch_add amount in non-test code is a "
                       "site; a site is violated when an unbounded operand (public chunk-size parameter, puller chunk size) "
                       "reaches it unclamped or the amount is not bounded by LEN, discharged when guard facts entail no "
                       "overflow/underflow (x<y => x+1, x <= e-s => x+s, struct invariant consumed <= filled); ZERO: chunk "
                       "size 0 panics where documented and is state-neutral for one-shot chunks; ENDGUARD on the index (not "
                       "on a wrapping value); SEQ range offset clamped.",
        "declined": "numerical results; a range longer than usize::MAX - (number of overshooting pulls) leaves the counter no "
                    "headroom (inherent to a fetch_add cursor; documented in DESIGN.md)",
        "technique": "static analysis: taint + guard-fact entailment on every arithmetic site of the MIR",
    },
    "C17": {
        "title": "debug = release; std preconditions",
        "rules": [r_own.rule_pre, r_own.rule_view, r_ovf.rule_ovf, r_fwd.rule_cfgdiff],
        "explanation": "The profile-sensitive constructs are enumerated from MIR: overflow asserts (OVF: each discharged, so "
                       "checked and unchecked builds agree), debug_assert! conditions (PRE.dbg: entailed at every call site), "
                       "calls of unsafe std functions with preconditions checked only in debug builds of std (PRE: per-callee "
                       "rule — from_raw_parts len <= cap, ptr.add offset <= LEN, read index < LEN, write to local MaybeUninit, "
                       "assume_init after write, ManuallyDrop::take slot not reused, drop_in_place on an owned interval, "
                       "set_len(0); an unsafe callee without a rule fails closed). Thorough: all four "
                       "overflow-checks x debug-assertions configurations must give the same verdicts.",
        "declined": "equality of all observable results in general",
        "technique": "static analysis: enumeration of profile-sensitive MIR constructs, each discharged by entailment",
    },
    "C18": {
        "title": "panic containment",
        "rules": [r_live.rule_unw, r_ticket.rule_cell, r_ticket.rule_gate, r_own.rule_view, r_own.rule_own],
        "explanation": "UNW: every terminator that can unwind inside a held region (calls not on the cannot-unwind table, drops "
                       "of user values, overflow asserts) has a cleanup path that drops a guard whose Drop sets the end flag, "
                       "and the guard is alive there; with GATE and the waiters' flag check this releases everyone; CELL.e: no "
                       "user callable besides the wrapped next() runs while the ticket is held (closures of for_each/fold and "
                       "Clone::clone run after the pull returned); OWN.view: chunk views drop their unconsumed part when "
                       "unwound (RAII).",
        "declined": "observing the hang",
        "technique": "static analysis: unwind-edge must-release analysis on MIR cleanup paths",
    },
    "C19": {
        "title": "non-consuming iteration; independence",
        "rules": [r_type.rule_ind, r_type.rule_wit_for("C19"), r_m1.rule_prov, r_m1.rule_amt, r_m1.rule_clamp],
        "explanation": "IND: the borrowing iterators (slice, range) and their pullers contain no unsafe operation and no interior "
                       "mutability but the counter they own by value; each con_iter() wraps the collection's own slice / a copy "
                       "of the range bounds (no element copy); Clone builds a fresh counter from the value of the old one; a "
                       "positive control shows the detector sees UnsafeCell storage; WIT: references cannot outlive the "
                       "collection, the collection cannot be mutated while borrowed, and is fully usable afterwards; clones "
                       "and separate iterators are independent values. The references delivered are those at the reserved "
                       "positions of the stored slice (PROV, AMT, CLAMP), whatever position an iterator or clone starts from.",
        "declined": "pointer identity at run time (implied by: the stored slice is the argument; elements are reached through "
                    "get/index on it)",
        "technique": "static analysis: absence-of-unsafe/interior-mutability audit + compile witnesses",
    },
}

for _p in PROPS.values():
    _p.setdefault("assumptions", [STD, HEAP])
