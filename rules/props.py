"""Property -> rules registry."""
import r_ticket
import r_m1
import r_ovf
import r_state
import r_fwd
import r_live
import r_own

PROPS = {
    "C17": {
        "rules": [r_own.rule_pre, r_own.rule_view, r_ovf.rule_ovf],
        "floors": {},
        "explanation": "tbd",
    },
    "C08": {
        "rules": [r_own.rule_own, r_own.rule_view, r_m1.rule_prov, r_m1.rule_clamp, r_state.rule_seq, r_ovf.rule_ovf],
        "floors": {},
        "explanation": "tbd",
    },
    "C15": {
        "rules": [r_own.rule_leak],
        "floors": {},
        "explanation": "tbd",
    },
    "C09": {
        "rules": [r_live.rule_live, r_live.rule_amt_pub],
        "floors": {},
        "explanation": "tbd",
    },
    "C18": {
        "rules": [r_live.rule_unw],
        "floors": {},
        "explanation": "tbd",
    },
    "C12": {
        "rules": [r_fwd.rule_each, r_ovf.rule_zero],
        "floors": {},
        "explanation": "tbd",
    },
    "C13": {
        "rules": [r_fwd.rule_fwd],
        "floors": {},
        "explanation": "tbd",
    },
    "C06": {
        "rules": [r_state.rule_skip, r_state.rule_seq, r_state.rule_len, r_state.rule_done],
        "floors": {},
        "explanation": "tbd",
    },
    "C03": {
        "rules": [r_m1.rule_clamp, r_m1.rule_amt, r_m1.rule_prov, r_m1.rule_nonempty, r_m1.rule_exact, r_ovf.rule_ovf],
        "floors": {},
        "explanation": "tbd",
    },
    "C16": {
        "rules": [r_ovf.rule_ovf, r_ovf.rule_zero],
        "floors": {},
        "explanation": "tbd",
    },
    "C01": {
        "rules": [r_m1.rule_atom, r_m1.rule_one, r_m1.rule_prov, r_m1.rule_amt, r_m1.rule_clamp, r_m1.rule_endguard, r_m1.rule_complete],
        "floors": {},
        "explanation": "tbd",
    },
    "C07": {
        "rules": [r_ticket.rule_ticket, r_ticket.rule_gate, r_ticket.rule_ord, r_ticket.rule_sticky, r_ticket.rule_cell],
        "floors": {},
        "explanation": "tbd",
    },
}
