"""OVF: every overflow-capable arithmetic site (+, -, * on usize, generic Idx additions, fetch_add amounts) is either
discharged by guard facts or definitely reachable by an unbounded operand (a public chunk-size parameter).
ZERO: chunk size zero is rejected where documented and state-neutral for one-shot chunk pulls.
"""
from env import Ob
from guards import unref, block_facts
from terms import fmt, subterms
from roles import place_path
from facts import norm_std
import r_m1
from r_m1 import _m1, cprover, CProver, rewrite

AXIOMS = [
    # (name, reason, matcher(env, e, a, b))
]


def struct_invariants(env):
    """(adt, f_idx, g_idx) such that field f <= field g holds for every value of the struct: established by enumerating
    every constructor aggregate and every assignment to f or g in the crate."""
    inv = getattr(env, "_struct_inv", None)
    if inv is not None:
        return inv
    inv = set()
    F = env.F
    cand = {}
    for path, a in F.adts.items():
        if a["kind"] != "Struct":
            continue
        us = [i for i, f in enumerate(a["variants"][0]["fields"]) if f["ty"]["s"] == "usize"]
        if len(us) >= 2:
            cand[path] = us
    for adt, us in cand.items():
        for f in us:
            for g in us:
                if f == g:
                    continue
                ok = True
                nsites = 0
                for b in F.non_test_bodies():
                    ctx = env.ctx(b, F.impl_self_adt(b), None)
                    for bi, blk in enumerate(b.blocks):
                        for s in blk["stmts"]:
                            if s["k"] != "assign":
                                continue
                            rv = s["rv"]
                            if rv["k"] == "aggregate" and rv.get("ak") == "adt" and rv["adt"] == adt.replace("std::", "std::"):
                                ops = [env.ev.operand(ctx, o) for o in rv["ops"]]
                                nsites += 1
                                p = env.prover(ctx, bi)
                                if not p.le(ops[f], ops[g]):
                                    ok = False
                            pl = s["place"]
                            if pl["p"] and pl["p"][-1]["k"] == "field" and pl["p"][-1].get("adt") == adt:
                                fi = pl["p"][-1]["i"]
                                if fi == g:
                                    ok = False
                                elif fi == f:
                                    nsites += 1
                                    base = {"l": pl["l"], "p": pl["p"][:-1]}
                                    bt = env.ev.place(ctx, base)
                                    ft = ("field", bt, f, None, adt)
                                    gt = ("field", bt, g, None, adt)
                                    val = env.ev.rvalue(ctx, rv)
                                    p = env.prover(ctx, bi)
                                    # accepted writers: f = g ; f = f + 1 under f < g
                                    def same(x, y):
                                        return x[0] == "field" and y[0] == "field" and x[1] == y[1] and x[2] == y[2]
                                    v = unref(val)
                                    lt_ok = any(fc[0] == "lt" and same(unref(fc[1]), ft) and same(unref(fc[2]), gt)
                                                for fc in block_facts(env.ev, ctx, bi) if len(fc) == 3)

                                    def accepted(v):
                                        v = unref(v)
                                        if same(v, gt):
                                            return True
                                        return v[0] == "bin" and v[1] == "Add" and v[3] == ("int", 1) \
                                            and same(unref(v[2]), ft) and lt_ok
                                    # (a value chosen in a `match` is one of its alternatives)
                                    if all(accepted(x) for x in (v[1] if v[0] == "phi" else (v,))):
                                        continue
                                    ok = False
                if ok and nsites > 0:
                    inv.add((adt, f, g))
    env._struct_inv = inv
    return inv


class OProver(CProver):
    def __init__(self, env, *a, **k):
        CProver.__init__(self, *a, **k)
        self.inv = struct_invariants(env)

    def _le(self, a, b, depth):
        if CProver._le(self, a, b, depth):
            return True
        if a[0] == "field" and b[0] == "field" and a[1] == b[1] and len(a) > 4 and (a[4], a[2], b[2]) in self.inv:
            return True
        # a <= b if a <= c and c < b / c <= b is a fact
        for f in self.facts:
            if len(f) == 3 and f[0] in ("lt", "le") and f[2] == b and f[1] != a:
                if self.le(a, f[1], depth + 1):
                    return True
        return False


# functions that allocate space for a number of elements given as an argument: key -> index of that argument
ALLOC_SIZED = {
    "std::vec::Vec::with_capacity": 0, "std::vec::Vec::reserve": 1, "std::vec::Vec::reserve_exact": 1,
    "std::vec::Vec::try_reserve": 1, "std::vec::from_elem": 1, "std::vec::Vec::resize": 1, "std::vec::Vec::resize_with": 1,
    "std::collections::VecDeque::with_capacity": 0, "std::string::String::with_capacity": 0,
    "std::vec::Vec::with_capacity_in": 0,
}


def oprover(m, env, e, extra=()):
    def cf(f):
        return tuple(m.canon(x) if isinstance(x, tuple) and x and isinstance(x[0], str) else x for x in f)
    from guards import derive_satsub
    facts = derive_satsub([cf(f) for f in env.event_facts(e)] + [cf(f) for f in extra])
    pf = {}
    for k, v in env.ev.payload_facts.items():
        pf[m.canon(k)] = [cf(f) for f in v]
    of = {}
    for k, v in env.ev.option_facts.items():
        of[(m.canon(k[0]), m.canon(k[1]))] = [cf(f) for f in v]
    return OProver(env, facts, env.ev, e.ctx, payload_facts=pf, option_facts=of)


def _puller_adts(env):
    return {r.get("puller") for r in env.R.impl.values() if r.get("puller")}


def tainted(env, t, top_body):
    """is t an unbounded caller-controlled quantity (chunk size): a usize parameter of the analysed entry, a field of a
    puller object, or the length of a puller's buffer"""
    t = unref(t)
    if t[0] == "param" and t[1] >= 2:
        ins = (top_body.info or {}).get("inputs") or []
        if t[1] - 1 < len(ins) and ins[t[1] - 1]["s"] == "usize":
            return "parameter %d of %s" % (t[1], env.fname(top_body))
        return None
    pullers = _puller_adts(env)
    if t[0] in ("field", "deref"):
        root, fl = place_path(t)
        for (idx, name, adt) in fl:
            if adt in pullers:
                return "field `%s` of the buffered puller (the caller's chunk size)" % name
        return None
    if t[0] == "call" and t[1] == "len" and t[2]:
        root, fl = place_path(t[2][0])
        for (idx, name, adt) in fl:
            if adt in pullers:
                return "length of the puller's buffer (the caller's chunk size)"
    return None


def tainted_deep(env, t, top_body):
    """like tainted, through expressions: a term is caller-controlled if a caller-controlled quantity occurs in it and is not
    bounded on the way (`min(x, bounded)`); `opt.map_or(n, |u| u.min(n))` is n when opt is None"""
    t = unref(t)
    d = tainted(env, t, top_body)
    if d:
        return d
    if t[0] == "call" and t[1] == "min" and len(t[2]) == 2:
        a, b = tainted_deep(env, t[2][0], top_body), tainted_deep(env, t[2][1], top_body)
        return a if (a and b) else None
    if t[0] in ("call", "phi", "bin", "cast"):
        subs = t[2] if t[0] == "call" else (t[1] if t[0] == "phi" else t[2:])
        for x in subs:
            if isinstance(x, tuple) and x and isinstance(x[0], str):
                if x[0] == "agg" and x[1].startswith("closure:"):
                    continue
                d = tainted_deep(env, x, top_body)
                if d:
                    return d
    return None


def _counts_slice_rounds(e):
    """`k + 1` where k is a local that starts at a constant 0, is assigned nowhere else inside the loop but from this very
    addition, and the addition is dominated by the `Some` edge of a `next()` of a std slice iterator (`Iter` / `IterMut`,
    a `for x in slice.iter()/iter_mut()` loop) called in the same loop: k counts yielded elements of a slice."""
    b, bi, st = e.body, e.bb, e.info["stmt"]
    if not (st["rv"]["b"].get("k") == "const" and st["rv"]["b"].get("int") == 1 and st["rv"]["a"]["k"] in ("copy", "move")
            and not st["rv"]["a"]["place"]["p"]):
        return False
    cnt, tmp = st["rv"]["a"]["place"]["l"], st["place"]["l"]
    loops = [(h, lb) for (h, lb) in b.natural_loops() if bi in lb]
    if not loops:
        return False
    h, lb = min(loops, key=lambda x: len(x[1]))
    ndefs = 0
    for x in range(len(b.blocks)):
        for s2 in b.blocks[x]["stmts"]:
            if s2["k"] == "assign" and s2["place"]["l"] == cnt and not s2["place"]["p"]:
                rv = s2["rv"]
                if x in lb:
                    if not (rv["k"] == "use" and rv["op"].get("place", {}).get("l") == tmp):
                        return False
                else:
                    ndefs += 1
                    if not (rv["k"] == "use" and rv["op"].get("k") == "const" and rv["op"].get("int") == 0):
                        return False
    if ndefs != 1:
        return False
    dom = b.dominators().get(bi, set()) | {bi}
    for x in lb:
        c = b.callee(x)
        if c is None or c.indirect or c.trait != "std::iter::Iterator" or c.name != "next":
            continue
        if (c.self_ty or {}).get("adt") not in ("std::slice::IterMut", "std::slice::Iter"):
            continue
        # the Some edge of this call dominates the addition
        tgt = b.term(x).get("target")
        if tgt is None or tgt not in dom:
            continue
        t2 = b.term(tgt)
        if t2["k"] == "switch":
            some_t = [tb for v, tb in t2["targets"] if v == 1]
            if some_t and some_t[0] in dom and some_t[0] != t2["otherwise"]:
                return True
    return False


def no_overflow_add(p, a, b):
    """a + b cannot overflow?"""
    a, b = unref(a), unref(b)
    for x, y in ((a, b), (b, a)):
        # x < z => x + 1 ok
        if y == ("int", 1):
            for f in list(p.facts) + p.payload_facts.get(x, []):
                if len(f) == 3 and f[0] == "lt" and f[1] == x:
                    return "x < y entails x + 1 <= y"
        # y (<|<=) L - x by a dominating guard => x + y <= L
        for f in list(p.facts) + p.payload_facts.get(y, []):
            if len(f) == 3 and f[0] in ("lt", "le") and f[1] == y and f[2][0] == "bin" and f[2][1] == "Sub" and unref(f[2][3]) == x:
                return "y <= L - x (guard) entails x + y <= L"
        # y <= L - x (a difference that is itself checked not to underflow) => x + y <= L
        for z in subterms(y):
            if z[0] == "bin" and z[1] == "Sub" and unref(z[3]) == x and p.le(y, z):
                return "y <= L - x entails x + y <= L"
        # x <= saturating_sub(e, s) => x + s <= max(e, s)
        yy = y
        cands = []
        for f in list(p.facts) + p.payload_facts.get(x, []):
            if len(f) == 3 and f[0] in ("lt", "le") and f[1] == x:
                cands.append(f[2])
        cands.append(x)
        for c in cands:
            for z in subterms(c):
                if z[0] == "call" and z[1] == "saturating_sub" and len(z[2]) == 2 and unref(z[2][1]) == yy:
                    if p.le(x, z):
                        return "x <= saturating_sub(e, s) entails x + s <= max(e, s)"
    return None


def rule_ovf(env, shared):
    m = _m1(env)
    out = {}
    covered = set()
    rank = {"ok": 0, "undecided": 1, "viol": 2}

    def put(o):
        prev = out.get(o.key)
        if prev is None or rank[o.status] > rank[prev.status]:
            out[o.key] = o

    def owner_key(e):
        return env.fname(e.body)

    def site(e, u, top_body, anchored):
        """decide one arithmetic event"""
        if e.kind == "binop":
            a, b = m.canon(unref(e.args[0])), m.canon(unref(e.args[1]))
            if a[0] in ("int", "const") and b[0] in ("int", "const"):
                return
            if "ALIGN" in fmt(a) or "ALIGN" in fmt(b):
                return
            op = e.info["op"]
            # key on the standalone (not inlined) operand text so that all worlds share it
            sctx = env.ctx(e.body, env.F.impl_self_adt(e.body), None)
            st = e.info["stmt"]
            sa_, sb_ = env.ev.operand(sctx, st["rv"]["a"]), env.ev.operand(sctx, st["rv"]["b"])
            key = "OVF|%s|%s(%s, %s)" % (owner_key(e), op, fmt(unref(sa_))[:70], fmt(unref(sb_))[:70])
            p = oprover(m, env, e)
            if op == "Sub":
                if p.le(b, a):
                    put(Ob("OVF", key, "ok", e.loc(), "subtrahend <= minuend entailed", True))
                else:
                    st_ = "viol" if anchored else "undecided"
                    put(Ob("OVF", key, st_, e.loc(),
                           "cannot establish that %s - %s does not underflow%s" % (
                               fmt(a)[:90], fmt(b)[:90], " on a pull path of %s" % u.world["name"] if u else "")))
            elif op == "Add":
                ta, tb = tainted(env, e.args[0], top_body), tainted(env, e.args[1], top_body)
                if (ta or tb) and no_overflow_add(p, a, b):
                    put(Ob("OVF", key, "ok", e.loc(), "no overflow: the caller-chosen operand is bounded by a dominating guard: "
                           + no_overflow_add(p, a, b), True))
                    return
                if ta or tb:
                    put(Ob("OVF", key, "viol", e.loc(),
                           "unbounded operand in an unchecked-width addition: %s is added to %s; with a chunk size near "
                           "usize::MAX this overflows (panic with overflow checks, wrapped index without)" % (
                               ta or tb, fmt(b if ta else a)[:80])))
                    return
                why = no_overflow_add(p, a, b)
                if why:
                    put(Ob("OVF", key, "ok", e.loc(), "no overflow: " + why, True))
                    return
                if _counts_slice_rounds(e):
                    put(Ob("OVF", key, "ok", e.loc(), "no overflow: the counter starts at 0 and grows by one per element that a "
                           "std slice iterator yields in this loop: it is bounded by the length of the slice", True))
                    return
                # axiom: begin_idx + i with i the enumerate index of the chunk's elements
                txt = fmt(a) + fmt(b)
                if "Iterator::enumerate" in txt and "begin_idx" in repr(e.args) or \
                        ("enumerate" in txt and "payload" in txt):
                    put(Ob("OVF", key, "ok", e.loc(),
                           "axiom: chunk begin index + in-chunk offset is the position of an existing element (< LEN)", True))
                    return
                st_ = "viol" if anchored else "undecided"
                put(Ob("OVF", key, st_, e.loc(), "cannot establish that %s + %s does not overflow" % (
                    fmt(a)[:90], fmt(b)[:90])))
            else:
                put(Ob("OVF", key, "undecided", e.loc(), "multiplication site not analysed"))
        elif e.kind == "call" and e.info.get("model") in ("add", "sub") and e.callee.self_param:
            # generic Idx arithmetic
            a, b = m.canon(unref(e.args[0])), m.canon(unref(e.args[1]))
            key = "OVF|%s|Idx::%s" % (owner_key(e), e.info["model"])
            p = oprover(m, env, e)
            if e.info["model"] == "add":
                bb = b[2][0] if b[0] == "call" and b[1] == "conv" else b
                # start + conv(x) with x <= saturating_sub(conv(end), conv(start))
                conv_a = ("call", "conv", (a,))
                ok = False
                cands = [bb]
                for f in list(p.facts) + p.payload_facts.get(bb, []):
                    if len(f) == 3 and f[0] in ("lt", "le") and f[1] == bb:
                        cands.append(f[2])
                for c in cands:
                    for z in subterms(c):
                        if z[0] == "call" and z[1] == "saturating_sub" and len(z[2]) == 2 and unref(z[2][1]) == conv_a \
                                and p.le(bb, z):
                            ok = True
                if ok:
                    put(Ob("OVF", key, "ok", e.loc(), "start + idx with idx <= saturating_sub(end, start): no overflow", True))
                else:
                    put(Ob("OVF", key, "viol" if anchored or True else "undecided", e.loc(),
                           "generic index addition %s + %s is not guarded by idx <= end - start on the index: the value "
                           "can overflow / wrap for ranges ending near the maximum" % (fmt(a)[:80], fmt(b)[:80])))
            else:
                put(Ob("OVF", key, "undecided", e.loc(), "generic subtraction not analysed"))
        elif e.kind == "call" and e.info.get("mkey") in ALLOC_SIZED and len(e.args) > ALLOC_SIZED[e.info.get("mkey")]:
            # memory proportional to a caller-chosen size on a pull path: `capacity overflow` / allocation failure for
            # sizes near usize::MAX (only the buffered puller's constructor allocates chunk_size slots by documentation)
            amt = e.args[ALLOC_SIZED[e.info["mkey"]]]
            key = "OVF.alloc|%s|%s" % (owner_key(e), e.info["mkey"].split("::")[-1])
            t = tainted_deep(env, amt, top_body)
            if t and u is not None:
                put(Ob("OVF.alloc", key, "viol", e.loc(),
                       "a %s pull of %s allocates space for %s elements up front (%s): a request near usize::MAX panics "
                       "with `capacity overflow` (and ends the iteration through the panic guard) although only the "
                       "delivered elements need space" % (u.kind, u.world["name"], fmt(unref(amt))[:60], t)))
            else:
                put(Ob("OVF.alloc", key, "ok", e.loc(), "allocation size is not a caller-chosen chunk size on a pull path"))
        elif e.kind == "atomic" and e.info["op"] == "fetch_add":
            role, adt = env.R.classify(e.info["place"])
            if role != "pos":
                return
            amt = e.args[1] if len(e.args) > 1 else None
            key = "OVF|%s|fetch_add-amount(%s)" % (env.sname(adt), env.fname(top_body))
            t = tainted(env, amt, top_body) if amt is not None else None
            kind = env.R.impl[adt]["kind"]
            if t and kind == "ticket":
                # the wrapper over an arbitrary iterator has no length to clamp to: decided by rule OVF.ticket
                # (rule_ovf_ticket), which belongs to the properties about exclusive use / boundary chunk sizes
                pass
            elif t:
                put(Ob("OVF", key, "viol", e.loc(),
                       "the position counter of %s is advanced by an unbounded amount (%s): a chunk size near usize::MAX "
                       "wraps the counter and already delivered positions are handed out again" % (env.sname(adt), t)))
            else:
                am = m.canon(unref(amt))
                Lt = env.R.impl[adt].get("len_term")
                Lc = None
                bounded = am[0] == "int"
                if not bounded and kind == "known" and Lt is not None:
                    # the amount must be clamped to (something <=) LEN of this very iterator
                    obj = None
                    t0 = unref(e.info["place"])
                    while t0[0] == "field":
                        if len(t0) > 4 and t0[4] == adt and t0[2] == env.R.impl[adt].get("pos"):
                            obj = t0[1]
                            break
                        t0 = t0[1]
                    Lc = m.canon(r_m1.subst_self(Lt, obj)) if obj is not None else None
                    if Lc is not None:
                        Lc = rewrite(Lc, lambda x: x[1][1] if x[0] == "deref" and x[1][0] == "ref" else None)
                        bounded = oprover(m, env, e).le(am, Lc)
                elif kind == "ticket":
                    bounded = True
                if kind == "known" and Lt is not None and (bounded or am[0] == "int"):
                    if Lc is None:
                        obj = None
                        t0 = unref(e.info["place"])
                        while t0[0] == "field":
                            if len(t0) > 4 and t0[4] == adt and t0[2] == env.R.impl[adt].get("pos"):
                                obj = t0[1]
                                break
                            t0 = t0[1]
                        Lc = m.canon(r_m1.subst_self(Lt, obj)) if obj is not None else None
                        if Lc is not None:
                            Lc = rewrite(Lc, lambda x: x[1][1] if x[0] == "deref" and x[1][0] == "ref" else None)
                    # bounded amounts still add up: an exhausted iterator must not be advanced at all, otherwise polling it
                    # usize::MAX / LEN times after the end wraps the counter back to delivered positions
                    kw = "OVF.wrap|%s|%s" % (env.sname(adt), env.fname(top_body))
                    pl = unref(e.info["place"])
                    guarded = False
                    rest = False
                    Lc2 = Lc
                    op_ = oprover(m, env, e)
                    for f in op_.facts:
                        if f[0] == "lt" and len(f) == 3 and f[1][0] == "atomic" and f[1][1] == "load" \
                                and m.canon(unref(f[1][2])) == m.canon(pl) and Lc2 is not None and f[2] == Lc2:
                            guarded = True
                            # ... and by no more than what is left from the position that was seen: a single-threaded
                            # history then never moves the counter beyond LEN, whatever LEN is
                            if am[0] == "int" or op_.le(am, ("bin", "Sub", Lc2, f[1])) \
                                    or op_.le(am, ("call", "saturating_sub", (Lc2, f[1]))):
                                rest = True
                    if not guarded and am[0] == "int":
                        # a constant step may instead be guarded by saturation: the counter is not advanced once it reads
                        # usize::MAX (the calls made after the end are still counted, but the counter cannot wrap)
                        for f in op_.facts:
                            if f[0] == "ne" and len(f) == 3:
                                for x, y in ((f[1], f[2]), (f[2], f[1])):
                                    if x[0] == "atomic" and x[1] == "load" and m.canon(unref(x[2])) == m.canon(pl) \
                                            and y[0] == "int" and y[1] >= 18446744073709551615:
                                        guarded = rest = True
                    if guarded and not rest:
                        put(Ob("OVF.wrap", kw, "viol", e.loc(),
                               "a pull of %s advances the position counter by up to LEN although the counter may already be "
                               "close to LEN: for a source longer than usize::MAX / 2 the sum wraps (0..(1<<63)+2 pulled with "
                               "chunk sizes len-1, len: the second pull wraps the counter and the third delivers positions "
                               "again); the amount must be clamped to LEN minus the position read before" % env.sname(adt)))
                    elif guarded:
                        put(Ob("OVF.wrap", kw, "ok", e.loc(), "the counter is advanced only while it is below LEN, and by no more "
                               "than what is left", True))
                    else:
                        put(Ob("OVF.wrap", kw, "viol", e.loc(),
                               "every pull of %s advances the position counter by up to LEN even when the source is exhausted; "
                               "after about usize::MAX / LEN pulls past the end the counter wraps and delivered positions are "
                               "handed out again (2 further pulls suffice for a source longer than usize::MAX / 2)"
                               % env.sname(adt)))
                if bounded:
                    put(Ob("OVF", key, "ok", e.loc(), "reservation amount is bounded by LEN: %s" % fmt(am)[:80], True))
                else:
                    put(Ob("OVF", key, "viol", e.loc(),
                           "the position counter of %s is advanced by %s, which is not bounded by the length of the source: "
                           "large chunk sizes wrap the counter and delivered positions are handed out again" % (
                               env.sname(adt), fmt(am)[:100])))

    for u in m.units:
        for e in u.events:
            covered.add(e.body.def_)
            top = u.body
            # closure events: parameters of the closure are not entry parameters
            site(e, u, top if not e.info["chain"] and e.body is top else _top_of(e, top), True)
    # standalone bodies not inlined into any pull unit
    from r_ticket import all_callers
    for b in env.F.non_test_bodies():
        if b.def_ in covered:
            continue
        # a crate-private helper is judged where it is called (inlined into its callers, with the facts of the call sites);
        # judged on its own it would have to hold for arguments no caller passes
        info_b = b.info or {}
        if not b.is_closure and not info_b.get("exported") and info_b.get("container") in ("inherent", "free") \
                and not info_b.get("reachable"):
            cs = [(cb, bi) for (cb, bi) in all_callers(env, b.def_) if cb.def_ != b.def_]
            if cs:
                continue
        sa = env.F.impl_self_adt(b)
        world = None
        for w in env.worlds():
            if w["iter"] == sa or w["puller"] == sa:
                world = w
        # arithmetic in the methods of the iterator types themselves (implementors, pullers, chunk iterators, views) is
        # part of the public behaviour: undischarged sites there are reported; only unrelated helpers stay "undecided"
        root = env.F.bodies.get(b.root, b) if b.is_closure else b
        rsa = env.F.impl_self_adt(root)
        pullers = {r.get("puller") for r in env.R.impl.values()}
        anchored = rsa is not None and (rsa in env.R.impl or rsa in pullers or rsa in env.view_adts()
                                        or any(rsa == (l["ty"].get("adt") or "") for bb2 in env.F.non_test_bodies()
                                               if env.F.impl_self_adt(bb2) in pullers for l in bb2.locals[:1]))
        for e in env.flat_events(b, sa, world):
            if e.body.def_ in covered and e.body is not b:
                continue
            site(e, None, b, anchored)
    return list(out.values())


def rule_ovf_ticket(env, shared):
    """OVF.ticket: tickets of the wrapper over an arbitrary iterator are unique among the pulls in flight only while the
    ticket counter does not wrap. A reservation of a caller-chosen, unclamped, unchecked amount can wrap it (the one-shot
    chunk pull: `next_chunk(usize::MAX)` followed by two single pulls gives ticket 0 to a second caller while the first is
    still inside the wrapped iterator). Buffered pulls reserve their buffer length, which the allocation bounds."""
    m = _m1(env)
    out = []
    R = env.R
    for u in m.units:
        base = m.base_impl(u.world)
        if R.impl[base]["kind"] != "ticket" or u.world.get("inner"):
            continue
        for e in u.events:
            if not (e.kind == "atomic" and e.info["op"] == "fetch_add"):
                continue
            role, adt = R.classify(e.info["place"])
            if role != "pos" or len(e.args) < 2:
                continue
            key = "OVF.ticket|%s|%s" % (env.sname(adt), u.kind)
            if any(o.key == key for o in out):
                continue
            amt = unref(e.args[1])
            t = tainted(env, amt, u.body)
            loc = u.body.file_line()
            if amt[0] == "int":
                out.append(Ob("OVF.ticket", key, "ok", loc, "constant amount %s: 2^64 pulls would be needed to wrap" % fmt(amt)))
            elif t and t.startswith("parameter"):
                checked = any(f[0] == "no_ovf" for f in env.event_facts(e))
                out.append(Ob("OVF.ticket", key, "ok" if checked else "viol", loc,
                              "reservation is overflow-checked" if checked else
                              "the %s pull of %s advances the ticket counter by the caller's chunk size (%s) with a wrapping "
                              "fetch_add: with a size near usize::MAX the counter wraps while the pull is still in flight, a "
                              "later pull is given the same ticket and enters the wrapped iterator at the same time "
                              "(data race on the iterator's state, elements delivered out of order)" % (
                                  u.kind, env.sname(adt), t), True))
            elif t:
                out.append(Ob("OVF.ticket", key, "ok", loc,
                              "tabled: amount is the length of the puller's buffer (%s), which had to be allocated: two such "
                              "reservations in flight cannot add up to 2^64" % t))
            else:
                out.append(Ob("OVF.ticket", key, "ok", loc, "amount %s is not caller-chosen" % fmt(amt)[:60]))
    if not out:
        out.append(Ob("OVF.ticket", "OVF.ticket|anchor", "viol", "-", "no reservation of the ticket implementor found"))
    return out


def _top_of(e, top):
    return top


def rule_zero(env, shared):
    """ZERO: (a) the buffered driver's constructor and the default algorithms reject chunk size 0 by an assertion that
    dominates everything else; (b) a one-shot chunk pull with n = 0 mutates nothing but an amount-n reservation."""
    out = []
    F, R = env.F, env.R
    m = _m1(env)
    # (a) functions taking a chunk size that must panic on 0
    targets = []
    for b in F.non_test_bodies():
        if b.is_closure:
            continue
        sa = F.impl_self_adt(b)
        calls = [(c.trait, c.name, c.key) for _, _, c in b.calls()]
        is_algo = any(tr == R.T_CON and nm == "buffered_iter" for tr, nm, _ in calls) and sa is None \
            and (b.info or {}).get("container") == "free"
        is_ctor = sa is not None and m.buffered_next is not None and sa == F.impl_self_adt(m.buffered_next) \
            and b.name != m.buffered_next.name and any(tr == R.T_CHUNK and nm == "chunk_size" for tr, nm, _ in calls) \
            and any(st["k"] == "assign" and st["rv"]["k"] == "aggregate" and st["rv"].get("ak") == "adt"
                    and norm_std(st["rv"]["adt"]) == sa for blk in b.blocks if not blk["cleanup"] for st in blk["stmts"])
        if is_algo or is_ctor:
            targets.append(b)
    def positive_assertions(b, depth=0):
        """[(asserted term, set of blocks that run only after the assertion passed)] for assertions `x > 0` of b that
        dominate all of its work"""
        ctx = env.ctx(b, F.impl_self_adt(b), None)
        res = []
        # find a switch on (chunk_size > 0) whose false edge reaches a panic and whose true edge dominates all returns
        for bi, blk in enumerate(b.blocks):
            t = blk["term"]
            if t["k"] != "switch" or t.get("discr_ty") != "bool":
                continue
            T = env.ev.operand(ctx, t["discr"])
            T = unref(T)
            if T[0] == "bin" and T[1] in ("Gt", "Ne", "Ge") and unref(T[3]) in (("int", 0), ("int", 1)):
                subject = unref(T[2])
            elif T[0] == "bin" and T[1] == "Lt" and unref(T[2]) == ("int", 0):
                subject = unref(T[3])
            else:
                continue
            # which successor panics?
            succs = b.succ(bi)
            pan = [s for s in succs if _reaches_only_panic(b, s)]
            okb = [s for s in succs if s not in pan]
            if len(pan) == 1 and len(okb) == 1:
                # everything that does real work must be dominated by okb[0]
                work = [x for x in range(len(b.blocks)) if not b.blocks[x]["cleanup"] and x in b.reachable(okb[0])]
                pre = [x for x in b.reachable(0) if x not in work and not _reaches_only_panic(b, x)
                       and not b.blocks[x]["cleanup"]]
                # blocks before the check must not call anything but the chunk-size getter
                bad = False
                for x in pre:
                    c = b.callee(x)
                    if c is not None and not (c.name in ("chunk_size",) or c.trait == R.T_CHUNK):
                        bad = True
                if not bad:
                    res.append((subject, set(work)))
        # a call of a crate-local function that itself does nothing but assert its argument positive
        # (`fn assert_positive(n) { assert!(n > 0) }`) asserts the argument passed
        if depth < 2:
            for bi, t, c in b.calls():
                if b.blocks[bi]["cleanup"] or c.indirect or not c.local or c.def_ not in F.bodies:
                    continue
                hb = F.bodies[c.def_]
                if hb.is_closure or any(c2.local for bj, _t2, c2 in hb.calls() if not hb.blocks[bj]["cleanup"]):
                    continue
                for (subj, _w) in positive_assertions(hb, depth + 1):
                    if subj[0] == "param" and subj[1] - 1 < len(t["args"]) and t.get("target") is not None:
                        subject = unref(env.ev.operand(ctx, t["args"][subj[1] - 1]))
                        work = [x for x in range(len(b.blocks)) if not b.blocks[x]["cleanup"] and x in b.reachable(t["target"])]
                        pre = [x for x in b.reachable(0) if x not in work and x != bi and not _reaches_only_panic(b, x)
                               and not b.blocks[x]["cleanup"]]
                        if not any(b.callee(x) is not None and not (b.callee(x).name in ("chunk_size",)
                                                                   or b.callee(x).trait == R.T_CHUNK) for x in pre):
                            res.append((subject, set(work)))
        return res

    from r_ticket import all_callers
    for b in targets:
        ctx = env.ctx(b, F.impl_self_adt(b), None)
        key = "ZERO.a|%s" % env.fname(b)
        good = bool(positive_assertions(b))
        if not good and not (b.info or {}).get("exported"):
            # a crate-private helper: every caller must have asserted the very value it passes as the chunk size
            cs_params = set()
            for bi, t, c in b.calls():
                if c.trait == R.T_CON and c.name == "buffered_iter" and len(t["args"]) == 2:
                    x = unref(env.ev.operand(ctx, t["args"][1]))
                    cs_params.add(x[1] if x[0] == "param" else None)
            callers = all_callers(env, b.def_)
            if callers and cs_params and None not in cs_params:
                good = True
                for (cb, cbi) in callers:
                    cctx = env.ctx(cb, F.impl_self_adt(cb), None)
                    pa = positive_assertions(cb)
                    args = [unref(env.ev.operand(cctx, a)) for a in cb.term(cbi)["args"]]
                    for k in cs_params:
                        if not (k - 1 < len(args) and any(subj == args[k - 1] and cbi in work for (subj, work) in pa)):
                            good = False
        if good:
            out.append(Ob("ZERO.a", key, "ok", b.file_line(), "chunk size > 0 is asserted before anything else happens", True))
        else:
            out.append(Ob("ZERO.a", key, "viol", b.file_line(),
                          "%s takes a chunk size but no `chunk_size > 0` assertion dominates its work: a zero chunk size "
                          "is documented to panic; without the assertion it loops forever or yields empty chunks"
                          % env.fname(b)))
    # (c) no buffered puller with chunk size 0 is ever handed out: in every world, each return of `buffered_iter(chunk_size)`
    #     lies behind a passed `x > 0` assertion on the chunk size — in the function itself, or in a function it always
    #     calls (the driver's or the chunk's constructor, a checking helper), at any depth. A zero-size buffered pull
    #     reserves with fetch_add(0): its ticket is shared with the next caller (two threads inside the wrapped
    #     iterator), and for known-size sources it yields empty chunks forever.
    def passed_assertions(ctx, depth=0):
        """subjects (terms of the entry function) of the positivity assertions that every normal return of ctx.body has
        passed"""
        b = ctx.body
        rets = [x for x in b.exits() if not b.blocks[x]["cleanup"] and b.term(x)["k"] == "return"]
        if not rets or depth > 5:
            return []
        dom = b.dominators()
        res = []
        for bi, blk in enumerate(b.blocks):
            if blk["cleanup"] or not all(bi in dom.get(r, set()) | {r} for r in rets):
                continue
            t = blk["term"]
            if t["k"] == "switch" and t.get("discr_ty") == "bool":
                T = unref(env.ev.operand(ctx, t["discr"]))
                if T[0] == "bin" and T[1] in ("Gt", "Ne", "Ge") and unref(T[3]) in (("int", 0), ("int", 1)) \
                        and not (T[1] == "Ge" and unref(T[3]) == ("int", 0)):
                    subject = unref(T[2])
                elif T[0] == "bin" and T[1] == "Lt" and unref(T[2]) == ("int", 0):
                    subject = unref(T[3])
                else:
                    continue
                pan = [x for x in b.succ(bi) if _reaches_only_panic(b, x)]
                if len(pan) == 1 and len(b.succ(bi)) == 2:
                    res.append(subject)
            elif t["k"] == "call":
                nctx = env.ev.callee_ctx(ctx, bi)
                if nctx is not None and not nctx.body.is_closure:
                    res.extend(passed_assertions(nctx, depth + 1))
        return res

    for w in env.worlds():
        bb_ = R.method_body(R.T_CON, "buffered_iter", w["iter"])
        if bb_ is None:
            continue
        key = "ZERO.c|%s" % w["name"]
        ctx = env.ctx(bb_, w["iter"], w)
        cs = ("param", 2)
        subj = passed_assertions(ctx)
        okc = [x for x in subj if x == cs or cs in subterms(x) or
               (x[0] == "call" and x[1] in ("len", "chunk_size", "Vec::len") or "chunk_size" in str(x[1]))]
        if okc:
            out.append(Ob("ZERO.c", key, "ok", bb_.file_line(), "every buffered puller handed out has passed `chunk size > 0` "
                          "(asserted on %s)" % fmt(okc[0])[:80], True))
        else:
            out.append(Ob("ZERO.c", key, "viol", bb_.file_line(),
                          "buffered_iter of %s can return a buffered puller whose chunk size was never asserted positive: a "
                          "zero-size buffered pull reserves nothing (for the iterator-backed source its ticket is shared with "
                          "the next caller, so two threads run the wrapped iterator at once; for known-size sources it yields "
                          "empty chunks without end); chunk size 0 is documented to panic" % w["name"]))
    # (b) one-shot chunk pulls with n == 0: any atomic store / flag store / wait must be guarded by n != 0
    for u in m.units:
        if u.kind != "chunk":
            continue
        key = "ZERO.b|%s" % u.world["name"]
        bad = None
        nparam = ("param", 2)
        for e in u.events:
            if e.kind == "atomic" and e.info["op"] not in ("load", "fetch_add"):
                fs = env.event_facts(e)
                guarded = any(f[0] in ("ne",) and len(f) == 3 and unref(f[1]) == nparam and f[2] == ("int", 0)
                              for f in fs)
                if not guarded:
                    bad = e
            if e.kind == "atomic" and e.info["op"] == "fetch_add":
                role, adt = R.classify(e.info["place"])
                amt = unref(e.args[1])
                # amount must be n (possibly clamped): 0 for n == 0
                if not (amt == nparam or (amt[0] == "call" and amt[1] == "min" and nparam in [unref(x) for x in amt[2]])):
                    fs = env.event_facts(e)
                    if not any(f[0] == "ne" and len(f) == 3 and unref(f[1]) == nparam and f[2] == ("int", 0) for f in fs):
                        bad = e
        # spin-waits entered with n == 0
        base = m.base_impl(u.world)
        if R.impl[base]["kind"] == "ticket":
            for e in u.events:
                if e.kind == "atomic" and e.info["op"] == "load":
                    role, adt = R.classify(e.info["place"])
                    if role == "serving":
                        fs = env.event_facts(e)
                        if not any(f[0] == "ne" and len(f) == 3 and unref(f[1]) == nparam and f[2] == ("int", 0)
                                   for f in fs):
                            bad = e
        if bad is None:
            out.append(Ob("ZERO.b", key, "ok", u.body.file_line(), "a zero-size one-shot chunk pull leaves the state unchanged",
                          True))
        else:
            out.append(Ob("ZERO.b", key, "viol", bad.loc(),
                          "next_chunk(0) on %s is not state-neutral: %s %s is reached without a guard excluding n = 0" % (
                              u.world["name"], bad.info.get("op"), fmt(bad.info.get("place"))[:80])))
    return out


def _reaches_only_panic(b, s):
    """every path from s ends in a diverging call (panic) / unreachable, never in return"""
    seen = set()
    st = [s]
    while st:
        x = st.pop()
        if x in seen:
            continue
        seen.add(x)
        t = b.term(x)
        if t["k"] == "return":
            return False
        st.extend(b.succ(x))
    return True


def rule_zero_ticket(env, shared):
    """ZERO.c for the worlds whose counter owner admits by ticket: a zero-size buffered pull reserves with fetch_add(0), so
    its ticket is the next caller's ticket too — both are admitted and run the wrapped iterator at the same time."""
    m = _m1(env)
    names = {w["name"] for w in env.worlds() if env.R.impl[m.base_impl(w)]["kind"] == "ticket"}
    res = shared.get("zero_obs")
    if res is None:
        res = rule_zero(env, shared)
    return [o for o in res if o.rule == "ZERO.c" and o.key.split("|", 1)[1] in names]

