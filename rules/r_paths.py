"""PATHS (thorough tier): an independent, path-based formulation of the protocol rules.

The dominator/fact based rules of r_ticket/r_live/r_m1 are re-decided here by enumerating the acyclic paths (every back
edge taken at most once) of each protocol function, turning each path into an event word (events of the blocks and labels
of the switch edges taken) and running small typestate automata over it:

  ticket functions (wait loops, continuation closures, the buffered puller of the wrapper):
    T1  ACCESS (wrapped iterator / its cell) only while HELD: after an ADMIT edge (ticket == now-serving) and a GATE edge
        (end flag false) — or from the entry of a function that runs held — and before any RELEASE;
    T2  a path that is HELD at a `return` has passed a RELEASE (or hands the ticket over: returns Some(ticket));
    T3  after the edge "wrapped next() returned None" the end flag is stored before the return;
  pull units of every world (top-level body):
    M1  at most one RESERVE block per path; every ACCESS block is preceded by the RESERVE on its path.

A disagreement with the dominator based rules shows up as a violation of the PATHS obligation only; the report says so.
"""
from env import Ob
from guards import block_facts, switch_facts, unref
from terms import fmt
from r_ticket import _ticket, receiver_kind
from r_m1 import _m1

MAX_PATHS = 4000


def enumerate_paths(b, start=0, unwind=False):
    """acyclic paths from start to return blocks, each back edge at most once; yields lists of blocks"""
    back = set(b.back_edges(unwind))
    out = []
    st = [(start, [start], frozenset())]
    while st and len(out) < MAX_PATHS:
        bb, path, used = st.pop()
        t = b.term(bb)
        if t["k"] == "return":
            out.append(path)
            continue
        succs = b.succ(bb, unwind)
        if not succs:
            continue  # diverges (panic)
        for s in succs:
            e = (bb, s)
            if e in back:
                if e in used:
                    continue
                st.append((s, path + [s], used | {e}))
            elif path.count(s) < 2:
                st.append((s, path + [s], used))
    return out


def edge_labels(env, ctx, b, d, s):
    """facts that hold because the edge d -> s is taken (switch terminators only)"""
    t = b.term(d)
    if t["k"] != "switch":
        return []
    listed = [v for v, _ in t["targets"]]
    vals = [v for v, bb in t["targets"] if bb == s]
    is_other = (s == t["otherwise"])
    if is_other and vals:
        return []
    return switch_facts(env.ev, ctx, d, vals, is_other, listed)


def rule_paths(env, shared):
    out = []
    if shared.get("tier") != "thorough":
        return out
    T = _ticket(env)
    F, ev = env.F, env.ev
    # ---- ticket functions -----------------------------------------------------------------------------------------
    if T.ok:
        def branching(body):
            return any(blk["term"]["k"] == "switch" for blk in body.blocks if not blk["cleanup"])
        for (b, sa) in T.universe:
            # the events of this function itself and of the straight-line wrappers it calls (cell opener, counter wrappers,
            # flag setter); events inside *branching* callees belong to those callees, which are analysed on their own
            evs = [e for e in T.direct_events(b, sa)
                   if not any(branching(cb) for (cb, _, _) in e.info["chain"][1:])
                   and not (e.info["chain"] and branching(e.body))]
            touches = any(T.is_cell_get(e) or T.is_inner_next(e) for e in evs)
            own_load = any(e.kind == "atomic" and e.info["op"] == "load" and T.role_of(e.info["place"])[0] == "serving"
                           for e in evs)
            if not (touches or own_load):
                continue
            if receiver_kind(b, F) in ("value", "mut") and F.impl_self_adt(b) == T.adt:
                continue
            ctx = env.ctx(b, sa, T.world)
            by_block = {}
            for e in evs:
                tb = e.info["top_bb"]
                if T.is_release(e):
                    by_block.setdefault(tb, []).append("RELEASE")
                elif T.is_cell_get(e) or T.is_inner_next(e):
                    # accesses made inside helper closures run by this function count at the call block
                    by_block.setdefault(tb, []).append("ACCESS")
            # order inside a block: releases come after accesses in all protocol functions; keep ACCESS before RELEASE
            for k in by_block:
                by_block[k].sort()
            entry_held = False
            h0 = T.held(b, sa, 0)
            # a function whose entry is held: continuation closures and helpers only called from held sites
            if h0[0] and (T.admission_fact(ctx, 0) is None or any(T.is_admission(f) for f in (ctx.entry_facts or ()))):
                entry_held = True
            # definition sites of the return value that hand the ticket to the caller (Some(ticket) / a boolean that is
            # true exactly for the admitted caller): block -> the value itself implies the end flag was seen false
            hands_over = {}
            if not b.is_closure:
                for bi, (okk, gated_v, why, hands) in T.handover_sites(b, sa).items():
                    if okk and hands:
                        hands_over[bi] = gated_v
            done_store_blocks = set()
            for e in evs:
                if e.kind == "atomic" and e.info["op"] == "store" and T.role_of(e.info["place"])[0] == "done":
                    done_store_blocks.add(e.info["top_bb"])
            # T2 is a duty of the functions that admit or release; helpers that merely run inside a held region
            # (the cell opener, closures invoked by an iterator adaptor chain) return to a caller that still holds the ticket
            releases_here = any("RELEASE" in v for v in by_block.values()) or any(
                T.admission_fact(ctx, bb_) is not None for bb_ in range(len(b.blocks)) if not b.blocks[bb_]["cleanup"])
            paths = enumerate_paths(b)
            key = "PATHS|ticket|%s" % env.fname(b)
            bad = None
            for path in paths:
                admitted = entry_held
                gated = entry_held
                held = entry_held
                released = False
                none_seen = False
                done_after_none = False
                handed = False
                le_ts = le_st = False
                for i, bb in enumerate(path):
                    if i > 0:
                        for f in edge_labels(env, ctx, b, path[i - 1], bb):
                            if f[0] == "eq" and len(f) == 3 and any(
                                    T.serving_load(x) is not None for x in (f[1], f[2])):
                                admitted = True
                            if f[0] == "is_some" and f[2] is True and T.admitting_call(ctx, f[1]) is not None:
                                admitted = True
                                gated = True  # the helper hands tickets out only under its own gate (rule GATE)
                            if f[0] == "flag" and T.role_of(f[1])[0] == "done":
                                if f[2] is False:
                                    gated = True
                                else:
                                    admitted = False  # leaves without the ticket
                                    le_ts = le_st = False
                            if f[0] == "is_some" and f[2] is False and "Iterator::next" in fmt(f[1]):
                                none_seen = True
                                done_after_none = False
                            if f[0] in ("lt",) and len(f) == 3 and (f[2][0] == "atomic" or T.serving_load(f[2]) is not None):
                                admitted = False
                                le_ts = le_st = False
                            if f[0] == "lt" and len(f) == 3 and T.serving_load(f[1]) is not None:
                                le_ts = le_st = False  # still waiting: now-serving < ticket
                            # `ticket <= now-serving` and `now-serving <= ticket` on one path: equality
                            if f[0] == "le" and len(f) == 3 and (T.serving_load(f[2]) is not None
                                                                 or T.serving_load(f[1]) is not None):
                                if T.serving_load(f[2]) is not None:
                                    le_ts = True
                                if T.serving_load(f[1]) is not None:
                                    le_st = True
                                if le_ts and le_st:
                                    admitted = True
                        held = admitted and gated and not released
                    for evn in by_block.get(bb, []):
                        if evn == "ACCESS":
                            if not held:
                                bad = ("T1", bb, "wrapped iterator accessed while not holding an admitted, gated, unreleased ticket")
                        elif evn == "RELEASE":
                            released = True
                            held = False
                    if bb in done_store_blocks and none_seen:
                        done_after_none = True
                    if bb in hands_over:
                        handed = True
                        if not (admitted and (gated or hands_over[bb])):
                            bad = bad or ("T4", bb, "the ticket is handed to the caller (Some(ticket)) on a path that was not "
                                                    "admitted on equality and gated by the end flag")
                last = path[-1]
                if admitted and gated and not released and not handed and releases_here:
                    bad = bad or ("T2", last, "a path returns while holding the ticket without a release")
                if none_seen and not done_after_none:
                    bad = bad or ("T3", last, "a path on which the wrapped iterator returned None does not set the end flag")
                if bad:
                    break
            if bad:
                out.append(Ob("PATHS", key, "viol", b.file_line(b.term(bad[1])["loc"]),
                              "path enumeration (%d paths) of %s violates %s: %s — this is the path-based re-statement of "
                              "TICKET/GATE/LIVE.c/DONE-SET; if those rules are green, the two formulations disagree and one of "
                              "them is wrong" % (len(paths), env.fname(b), bad[0], bad[2])))
            else:
                out.append(Ob("PATHS", key, "ok", b.file_line(), "%d paths: accesses only while held, releases on every held "
                              "return, end flag after None" % len(paths), True))
    # ---- pull units ---------------------------------------------------------------------------------------------------
    m = _m1(env)
    from r_m1 import _access_operands
    for u in m.units:
        b = u.body
        rs = u.reserves()
        res_blocks = {}
        for r, e in rs.items():
            if e.body is b or e.info["chain"] and e.info["chain"][0][0] is b:
                res_blocks.setdefault(e.info["top_bb"], []).append(r)
        acc_blocks = set()
        for (e, what, t) in _access_operands(env, u):
            # only events whose top-level body is the unit body (closures are continuations after the reservation)
            holder = e.info["chain"][0][0] if e.info["chain"] else e.body
            if holder is b:
                acc_blocks.add(e.info["top_bb"])
        paths = enumerate_paths(b)
        key = "PATHS|unit|%s" % u.label
        bad = None
        for path in paths:
            n_res = 0
            for bb in path:
                if bb in acc_blocks and n_res == 0 and bb not in res_blocks:
                    bad = ("M1", bb, "a storage access precedes the reservation on a path")
                if bb in res_blocks:
                    n_res += len(res_blocks[bb])
            if n_res > 1:
                bad = bad or ("M1", path[-1], "a path makes %d reservations" % n_res)
            if bad:
                break
        if bad:
            out.append(Ob("PATHS", key, "viol", b.file_line(b.term(bad[1])["loc"]),
                          "path enumeration (%d paths) of the %s pull of %s: %s" % (len(paths), u.kind, u.world["name"], bad[2])))
        else:
            out.append(Ob("PATHS", key, "ok", b.file_line(), "%d paths: at most one reservation, before every access" % len(paths),
                          True))
    return out
