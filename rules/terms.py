"""Symbolic terms over MIR locals, with inlining of crate-local callees and modelled std combinators.

Terms are nested tuples (hashable):
  ('param', i)                    i-th argument of the analysed entry (1-based MIR local)
  ('int', v) ('const', s) ('cparam', N) ('fnref', path)
  ('field', base, idx, name) ('deref', base) ('ref', base) ('variant', base, name) ('index', base, idx)
  ('agg', kind, (fields...))      kind: 'tuple' | '<adt path>::<Variant>' | 'closure:<def>' | 'array' | 'rawptr'
  ('bin', op, a, b) ('ovf', op, a, b) ('un', op, a) ('cast', kind, a) ('discr', a)
  ('call', model, (args...))      modelled pure std function (no site: equal calls are equal terms)
  ('atomic', op, place, (args...), site)   atomic load/store/rmw (site = chain of call sites)
  ('ret', key, (args...), site)   opaque result of a call
  ('payload', t)                  `Some` payload of t when it cannot be simplified
  ('phi', (options...)) ('cyclic', name) ('unknown', why)
"""
import re
from facts import norm_std, strip_generics, adt_of

# ---- modelled std functions: callee key -> model name ----------------------------------------------
PURE = {
    "std::cmp::Ord::min": "min",
    "std::cmp::Ord::max": "max",
    "std::cmp::Ord::cmp": "cmp",
    "std::cmp::Ord::clamp": "clamp",
    "std::cmp::min": "min",
    "std::cmp::max": "max",
    "std::num::saturating_sub": "saturating_sub",
    "std::num::saturating_add": "saturating_add",
    "std::num::wrapping_add": "wrapping_add",
    "std::num::wrapping_sub": "wrapping_sub",
    "std::num::checked_add": "checked_add",
    "std::num::checked_sub": "checked_sub",
    "std::cmp::PartialOrd::lt": "lt",
    "std::cmp::PartialOrd::le": "le",
    "std::cmp::PartialOrd::gt": "gt",
    "std::cmp::PartialOrd::ge": "ge",
    "std::cmp::PartialEq::eq": "eq",
    "std::cmp::PartialEq::ne": "ne",
    "std::slice::len": "len",
    "std::vec::Vec::len": "len",
    "std::vec::Vec::as_ptr": "as_ptr",
    "std::vec::Vec::as_mut_ptr": "as_ptr",
    "std::vec::Vec::capacity": "capacity",
    "std::vec::Vec::as_slice": "as_slice",
    "std::slice::as_ptr": "as_ptr",
    "std::slice::as_mut_ptr": "as_ptr",
    "std::array::as_slice": "as_slice",
    "std::slice::get": "slice_get",
    "std::slice::get_mut": "slice_get",
    "std::slice::split_at": "slice_split_at",
    "std::slice::is_empty": "is_empty",
    "std::vec::Vec::is_empty": "is_empty",
    "std::ops::Range::is_empty": "range_is_empty",
    "std::slice::iter": "slice_iter",
    "std::convert::Into::into": "into",
    "std::convert::From::from": "from",
    "std::option::Option::map": "Option::map",
    "std::option::Option::and_then": "Option::and_then",
    "std::option::Option::zip": "Option::zip",
    "std::option::Option::map_or": "Option::map_or",
    "std::option::Option::map_or_else": "Option::map_or_else",
    "std::option::Option::unwrap_or": "Option::unwrap_or",
    "std::option::Option::unwrap_or_else": "Option::unwrap_or_else",
    "std::option::Option::unwrap_or_default": "Option::unwrap_or_default",
    "std::option::Option::cloned": "Option::cloned",
    "std::option::Option::copied": "Option::copied",
    "std::option::Option::is_some": "Option::is_some",
    "std::option::Option::is_none": "Option::is_none",
    "std::option::Option::expect": "Option::expect",
    "std::option::Option::unwrap": "Option::unwrap",
    "std::option::Option::take": "Option::take",
    "std::option::Option::filter": "Option::filter",
    "std::iter::Iterator::map": "Iterator::map",
    "std::iter::Iterator::take_while": "Iterator::take_while",
    "std::iter::Iterator::collect": "Iterator::collect",
    "std::iter::Iterator::enumerate": "Iterator::enumerate",
    "std::iter::Iterator::cloned": "Iterator::cloned",
    "std::iter::Iterator::copied": "Iterator::copied",
    "std::iter::Iterator::skip": "Iterator::skip",
    "std::iter::IntoIterator::into_iter": "into_iter",
    "std::ops::Deref::deref": "deref",
    "std::ops::DerefMut::deref_mut": "deref",
    "std::ops::Index::index": "index",
    "std::ops::IndexMut::index_mut": "index",
    "std::ops::Add::add": "add",
    "std::ops::Sub::sub": "sub",
    "std::mem::ManuallyDrop::new": "ManuallyDrop::new",
    "std::cell::UnsafeCell::get": "UnsafeCell::get",
    "std::cell::UnsafeCell::get_mut": "UnsafeCell::get",
    "std::cell::UnsafeCell::into_inner": "UnsafeCell::into_inner",
    "std::cell::UnsafeCell::new": "UnsafeCell::new",
    "std::ptr::const_ptr::add": "ptr_add",
    "std::ptr::mut_ptr::add": "ptr_add",
    "std::ptr::slice_from_raw_parts_mut": "slice_from_raw_parts",
    "std::ptr::slice_from_raw_parts": "slice_from_raw_parts",
    "std::clone::Clone::clone": "clone",
    "std::iter::ExactSizeIterator::len": "len",
    "std::ptr::const_ptr::cast_mut": "ident",
    "std::ptr::mut_ptr::cast_const": "ident",
    "std::ptr::const_ptr::cast": "ident",
    "std::ptr::mut_ptr::cast": "ident",
    "std::ops::Try::branch": "Try::branch",
    "std::ops::FromResidual::from_residual": "Try::from_residual",
    "std::cmp::Ordering::is_lt": "ord_is:lt",
    "std::cmp::Ordering::is_le": "ord_is:le",
    "std::cmp::Ordering::is_gt": "ord_is:gt",
    "std::cmp::Ordering::is_ge": "ord_is:ge",
    "std::cmp::Ordering::is_eq": "ord_is:eq",
    "std::cmp::Ordering::is_ne": "ord_is:ne",
    "std::bool::then": "bool::then",
    "std::bool::then_some": "bool::then_some",
}

ATOMIC_OPS = ("fetch_add", "fetch_sub", "load", "store", "swap", "compare_exchange", "compare_exchange_weak",
              "fetch_and", "fetch_or", "fetch_xor", "fetch_max", "fetch_min", "fetch_update", "fetch_nand",
              "get_mut", "into_inner", "as_ptr")

TRANSPARENT_CASTS = ("Subtype", "PtrToPtr", "PointerCoercion")


def callee_model_key(c):
    """Key used against PURE: trait calls use the trait path; inherent std calls a generics-free path where
    impl blocks are normalised (`core::num::<impl usize>::saturating_add` -> `std::num::saturating_add`)."""
    if c.trait:
        return c.key
    k = c.key
    # `std::num::<impl usize>::x`, `std::slice::<impl [T]>::len`, `std::ptr::mut_ptr::<impl *mut T>::add`
    out = []
    depth = 0
    i = 0
    # remove `<impl ...>::` segments
    while i < len(k):
        if k.startswith("<impl ", i):
            j = i
            d = 0
            while j < len(k):
                if k[j] == "<":
                    d += 1
                elif k[j] == ">":
                    d -= 1
                    if d == 0:
                        break
                j += 1
            i = j + 1
            if k.startswith("::", i):
                i += 2
            continue
        out.append(k[i])
        i += 1
    return "".join(out)


def is_atomic(c):
    p = c.key
    if p.startswith("std::sync::atomic::Atomic") and c.name in ATOMIC_OPS:
        return True
    return False


def atomic_kind(c):
    """'usize' | 'bool' | other from the callee's full path (`Atomic::<usize>::fetch_add`)."""
    f = c.full
    if "Atomic::<usize>" in f or "AtomicUsize" in f:
        return "usize"
    if "Atomic::<bool>" in f or "AtomicBool" in f:
        return "bool"
    return "other"


# ---- term helpers ----------------------------------------------------------------------------------

def mk_phi(options):
    flat = []
    for o in options:
        if o[0] == "phi":
            for x in o[1]:
                if x not in flat:
                    flat.append(x)
        elif o not in flat:
            flat.append(o)
    if len(flat) == 1:
        return flat[0]
    return ("phi", tuple(flat))


def mk_deref(t):
    if t[0] == "ref":
        return t[1]
    if t[0] == "agg":
        return t
    if t[0] == "phi":
        return mk_phi([mk_deref(x) for x in t[1]])
    if t[0] == "call" and t[1] == "deref":
        # Deref::deref(&x) -> &inner ; *that -> inner of x (ManuallyDrop / Vec->slice are transparent here)
        return ("inner", mk_deref(t[2][0]))
    return ("deref", t)


def mk_bin(op, a, b):
    """binary term, with `L - min(c, L)` written as the std function it spells out: saturating_sub(L, c)"""
    if op == "Sub":
        bb = b
        while bb[0] == "ref":
            bb = bb[1]
        if bb[0] == "call" and bb[1] == "min" and len(bb[2]) == 2:
            x, y = bb[2]
            if x == a:
                return ("call", "saturating_sub", (a, y))
            if y == a:
                return ("call", "saturating_sub", (a, x))
    return ("bin", op, a, b)


def mk_field(t, idx, name, adt=None):
    if t[0] == "agg" and idx < len(t[2]) and not t[1].startswith("rawptr"):
        return t[2][idx]
    if t[0] == "phi":
        return mk_phi([mk_field(x, idx, name, adt) for x in t[1]])
    if t[0] == "bin" and t[1].endswith("WithOverflow"):
        base = t[1][: -len("WithOverflow")]
        if idx == 0:
            return mk_bin(base, t[2], t[3])
        return ("ovf", base, t[2], t[3])
    if t[0] == "variant" and t[1][0] == "phi":
        # payload of a variant of a value built in several places (`match Kind::new(n) { Kind::B(x) => .. }`): the field of
        # the alternatives that are this variant
        alts = [x for x in t[1][1] if x[0] == "agg" and x[1].endswith("::" + str(t[2])) and idx < len(x[2])]
        if alts and all(x[0] == "agg" for x in t[1][1]):
            return mk_phi([x[2][idx] for x in alts])
    if t[0] == "variant":
        # payload of an enum variant
        inner = t[1]
        if inner[0] == "agg" and inner[1].endswith("::" + str(t[2])) and idx < len(inner[2]):
            return inner[2][idx]
        if t[2] == "Some" and idx == 0:
            return payload_shallow(inner)
        # `x?` on an Option: Try::branch(x) is Continue(payload of x) | Break(None)
        if t[2] == "Continue" and idx == 0 and inner[0] == "call" and inner[1] == "Try::branch":
            return payload_shallow(inner[2][0])
    return ("field", t, idx, name, adt)


def payload_shallow(t):
    if t[0] == "agg" and t[1].endswith("Option::Some"):
        return t[2][0]
    if t[0] == "phi":
        opts = [payload_shallow(x) for x in t[1] if not (x[0] == "agg" and x[1].endswith("Option::None"))]
        if opts:
            return mk_phi(opts)
    return ("payload", t)


def is_none_agg(t):
    return t[0] == "agg" and t[1].endswith("Option::None")


def subterms(t):
    """Pre-order iteration over all sub-terms (including t)."""
    st = [t]
    while st:
        x = st.pop()
        yield x
        if isinstance(x, tuple):
            for y in x[1:]:
                if isinstance(y, tuple):
                    if y and isinstance(y[0], str):
                        st.append(y)
                    else:
                        for z in y:
                            if isinstance(z, tuple) and z and isinstance(z[0], str):
                                st.append(z)


def contains(t, pred):
    for x in subterms(t):
        if pred(x):
            return True
    return False


def fmt(t, depth=0):
    """Compact human-readable rendering for reports/keys."""
    if not isinstance(t, tuple):
        return str(t)
    k = t[0]
    if depth > 12:
        return "…"
    f = lambda x: fmt(x, depth + 1)
    if k == "param":
        return "arg%d" % t[1]
    if k == "int":
        return str(t[1])
    if k in ("const", "cparam", "fnref"):
        return str(t[1])
    if k == "field":
        return "%s.%s" % (f(t[1]), t[3] if t[3] is not None else t[2])
    if k == "deref":
        return "*%s" % f(t[1])
    if k == "inner":
        return "inner(%s)" % f(t[1])
    if k == "ref":
        return "&%s" % f(t[1])
    if k == "variant":
        return "%s@%s" % (f(t[1]), t[2])
    if k == "index":
        return "%s[%s]" % (f(t[1]), f(t[2]))
    if k == "agg":
        nm = t[1].split("::")[-1] if not t[1].startswith("closure:") else "closure"
        if "::" in t[1] and not t[1].startswith("closure:"):
            nm = "::".join(t[1].split("::")[-2:])
        return "%s{%s}" % (nm, ", ".join(f(x) for x in t[2]))
    if k == "bin":
        return "(%s %s %s)" % (f(t[2]), t[1], f(t[3]))
    if k == "ovf":
        return "ovf(%s %s %s)" % (f(t[2]), t[1], f(t[3]))
    if k == "un":
        return "%s(%s)" % (t[1], f(t[2]))
    if k == "cast":
        return "cast[%s](%s)" % (t[1], f(t[2]))
    if k == "discr":
        return "discr(%s)" % f(t[1])
    if k == "call":
        return "%s(%s)" % (t[1], ", ".join(f(x) for x in t[2]))
    if k == "atomic":
        return "atomic.%s(%s%s)" % (t[1], f(t[2]), "".join(", " + f(x) for x in t[3]))
    if k == "ret":
        return "ret<%s>(%s)" % (t[1], ", ".join(f(x) for x in t[2]))
    if k == "payload":
        return "payload(%s)" % f(t[1])
    if k == "phi":
        return "phi(%s)" % " | ".join(f(x) for x in t[1])
    if k == "clarg":
        return "closure-arg%d" % t[2]
    if k == "cyclic":
        return "cyclic(%s)" % t[1]
    if k == "unknown":
        return "unknown(%s)" % t[1]
    return str(t)


class Ctx:
    """Evaluation context: one activation of a body."""
    __slots__ = ("body", "params", "self_adt", "bindings", "depth", "site", "memo", "stack", "parent", "entry_facts")

    def __init__(self, body, params=None, self_adt=None, bindings=None, depth=0, site=(), stack=(), parent=None):
        self.parent = parent  # (caller ctx, block of the call) for inlined activations
        self.entry_facts = ()  # facts that hold whenever this activation runs (closure run by `bool::then`, ...)
        self.body = body
        self.params = params
        self.self_adt = self_adt
        self.bindings = bindings or {}
        self.depth = depth
        self.site = site
        self.memo = {}
        self.stack = stack


class Evaluator:
    MAX_DEPTH = 8

    def __init__(self, facts, inline=True):
        self.facts = facts
        self.inline = inline
        self._inprogress = set()
        self.payload_facts = {}
        self.payload_flags = {}
        self.option_facts = {}
        # alternatives of a phi that replaced a guarded selection (`c.then_some(v).unwrap_or(d)`): phi -> {alternative: facts}
        self.alt_facts = {}
        self._pending = []
        self.bind_fn = None

    def _record_payload_facts(self, ctx, bb, x, cond=None):
        """facts that hold whenever `Some(x)` is built in block bb (used for payloads of local callees)"""
        from guards import full_block_facts, bool_facts
        if x[0] in ("int", "const"):
            return
        extra = bool_facts(cond, True) if cond is not None else []
        for f in list(full_block_facts(self, ctx, bb)) + extra:
            if f[0] == "flag":
                lst = self.payload_flags.setdefault(x, [])
                if f not in lst:
                    lst.append(f)
            if len(f) == 3 and f[0] in ("lt", "le", "eq", "ne") and (f[1] == x or f[2] == x):
                lst = self.payload_facts.setdefault(x, [])
                if f not in lst:
                    lst.append(f)

    def _record_option_facts(self, ctx, l, phi):
        """for a local with several definitions: the guard facts of each defining block, keyed by the option term"""
        from guards import block_facts
        body = ctx.body
        per_value = {}
        for (bb, si, kind, payload) in body.defs().get(l, []):
            if body.blocks[bb]["cleanup"] or kind not in ("assign", "call"):
                continue
            v = self.rvalue(ctx, payload) if kind == "assign" else self.call(ctx, bb, payload)
            if v[0] in ("const", "param", "cparam") or (v[0] == "int" and v != ("int", 0)):
                continue
            fs = [f for f in block_facts(self, ctx, bb) if len(f) == 3 and f[0] in ("lt", "le", "eq", "ne")]
            per_value.setdefault(v, []).append(fs)
        for v, sets in per_value.items():
            # the same value assigned at several places: only what holds at all of them
            fs = [f for f in sets[0] if all(f in s for s in sets[1:])]
            if fs:
                lst = self.option_facts.setdefault((phi, v), [])
                for f in fs:
                    if f not in lst:
                        lst.append(f)

    # ---- entry points
    def ctx(self, body, self_adt=None, bindings=None, params=None):
        if self_adt is None:
            self_adt = self.facts.impl_self_adt(body)
        return Ctx(body, params=params, self_adt=self_adt, bindings=bindings, stack=(body.def_,))

    def local(self, ctx, l):
        key = l
        if key in ctx.memo:
            return ctx.memo[key]
        ip = (id(ctx), l)
        if ip in self._inprogress:
            return ("cyclic", ctx.body.debug_names.get(l, "_%d" % l))
        self._inprogress.add(ip)
        try:
            opts = []
            body = ctx.body
            if 1 <= l <= body.arg_count:
                if ctx.params is not None and l - 1 < len(ctx.params):
                    opts.append(ctx.params[l - 1])
                else:
                    opts.append(("param", l))
            for (bb, si, kind, payload) in body.defs().get(l, []):
                if body.blocks[bb]["cleanup"]:
                    continue
                if kind == "assign":
                    v = self.rvalue(ctx, payload)
                    opts.append(v)
                    if v[0] == "agg" and v[1].endswith("Option::Some") and v[2]:
                        self._pending.append(("payload", ctx, bb, v[2][0]))
                elif kind == "call":
                    v = self.call(ctx, bb, payload)
                    opts.append(v)
                    if v[0] == "call" and v[1] == "bool::then_some" and len(v[2]) == 2:
                        # `cond.then_some(x)`: a `Some(x)` built where cond holds
                        self._pending.append(("payload+", ctx, bb, v[2][1], v[2][0]))
                    if v[0] == "call" and v[1] == "Option::filter" and len(v[2]) == 2:
                        # `Some(x).filter(|x| cond(x))`: a `Some(x)` that exists only where cond(x) holds
                        rc = v[2][0]
                        while rc[0] == "ref":
                            rc = rc[1]
                        if rc[0] == "agg" and rc[1].endswith("Option::Some") and rc[2]:
                            cnd = self.closure_ret(ctx, v[2][1], [("ref", rc[2][0])])
                            self._pending.append(("payload+", ctx, bb, rc[2][0], cnd))
                elif kind == "mutcall":
                    opts.append(("call", "Vec::pushed", (("cyclic", body.debug_names.get(l, "_%d" % l)),
                                                         self.operand(ctx, payload["args"][1]))))
                else:
                    opts.append(("unknown", "partial-assign"))
            if not opts:
                r = ("unknown", "undef _%d" % l)
            else:
                r = mk_phi(opts)
                if r[0] == "phi" and len(r[1]) == 2:
                    r = self._idiom(ctx, l, r)
                if r[0] == "phi":
                    self._pending.append(("option", ctx, l, r))
        finally:
            self._inprogress.discard(ip)
        ctx.memo[key] = r
        if not self._inprogress and self._pending:
            # guard facts are computed only when no evaluation is in flight (otherwise cycle markers leak into them)
            pend, self._pending = self._pending, []
            for item in pend:
                if item[0] == "payload":
                    self._record_payload_facts(item[1], item[2], item[3])
                elif item[0] == "payload+":
                    self._record_payload_facts(item[1], item[2], item[3], cond=item[4])
                else:
                    self._record_option_facts(item[1], item[2], item[3])
        return r

    def _idiom(self, ctx, l, phi):
        """`if a < b { a } else { b }` is min(a, b), `if b < a { a - b } else { 0 }` is a.saturating_sub(b), ...: a local
        assigned in the two arms of one comparison is rewritten to the std function it spells out, so that rules see one
        form. Anything that does not match exactly stays a phi."""
        from guards import block_facts, unref
        body = ctx.body
        defs = [d for d in body.defs().get(l, []) if not body.blocks[d[0]]["cleanup"]]
        if len(defs) != 2 or any(d[2] not in ("assign", "call") for d in defs) or (1 <= l <= body.arg_count):
            return phi
        (b1, _, k1, rv1), (b2, _, k2, rv2) = defs
        if b1 == b2 or contains(phi, lambda x: x[0] == "cyclic"):
            return phi
        # (guard facts are evaluated below while this local is still being evaluated: only outside loops, where the
        #  dominating conditions cannot depend on the local itself)
        if any(b1 in lp or b2 in lp for (_h, lp) in body.natural_loops()):
            return phi
        v1 = unref(self.rvalue(ctx, rv1) if k1 == "assign" else self.call(ctx, b1, rv1))
        v2 = unref(self.rvalue(ctx, rv2) if k2 == "assign" else self.call(ctx, b2, rv2))
        # (the value of a call is available in the block *after* the call: its guard facts are those of the call block)
        # `match opt { Some(x) => x, None => d }` is opt.unwrap_or(d)
        s1 = [f for f in block_facts(self, ctx, b1) if len(f) == 3 and f[0] == "is_some"]
        s2 = [f for f in block_facts(self, ctx, b2) if len(f) == 3 and f[0] == "is_some"]
        for f in s1:
            if ("is_some", f[1], not f[2]) in s2 and not contains(f[1], lambda x: x[0] in ("cyclic", "unknown")):
                vs, vn = (v1, v2) if f[2] else (v2, v1)
                if vs == unref(self.payload(ctx, f[1])) and not contains(vn, lambda x: x == f[1]):
                    return ("call", "Option::unwrap_or", (f[1], vn))
        f1s = [f for f in block_facts(self, ctx, b1) if len(f) == 3 and f[0] in ("lt", "le")]
        f2s = [f for f in block_facts(self, ctx, b2) if len(f) == 3 and f[0] in ("lt", "le")]
        neg = {"lt": "le", "le": "lt"}
        for f in f1s:
            g = (neg[f[0]], f[2], f[1])
            if g not in f2s:
                continue
            if any(x[0] in ("cyclic", "unknown") for x in (f[1], f[2])):
                continue
            # in arm 1: x (<|<=) y ; in arm 2: y (<=|<) x
            x, y = unref(f[1]), unref(f[2])
            for (va, vb, p, q) in ((v1, v2, x, y), (v2, v1, y, x)):
                # va is the value where p (<|<=) q holds, vb where q (<=|<) p holds
                if va == p and vb == q:
                    return ("call", "min", (p, q))
                if va == q and vb == p:
                    return ("call", "max", (p, q))
                if va[0] == "bin" and va[1] == "Sub" and unref(va[2]) == q and unref(va[3]) == p and vb == ("int", 0):
                    return ("call", "saturating_sub", (q, p))
                # `if c >= e - b { e } else { b + c }` (b <= e known where e - b is computed) is min(b + c, e)
                for (diff, c_, vdiff, vsum) in ((p, q, va, vb), (q, p, vb, va)):
                    if diff[0] == "bin" and diff[1] == "Sub":
                        e_, b_ = unref(diff[2]), unref(diff[3])
                        if vdiff == e_ and vsum[0] == "bin" and vsum[1] == "Add" and \
                                {unref(vsum[2]), unref(vsum[3])} == {b_, c_}:
                            return ("call", "min", (("bin", "Add", b_, c_), e_))
            return phi
        return phi

    def place(self, ctx, p):
        t = self.local(ctx, p["l"])
        for e in p["p"]:
            k = e["k"]
            if k == "deref":
                t = mk_deref(t)
            elif k == "field":
                if t[0] == "variant" and e["i"] == 0 and t[2] in ("Some", "Continue") and not (
                        t[1][0] == "agg" and t[1][1].endswith("::" + t[2])):
                    # payload of an Option (`match`/`if let`/`?`): look through the modelled combinators
                    inner = t[1]
                    if t[2] == "Continue":
                        inner = inner[2][0] if (inner[0] == "call" and inner[1] == "Try::branch") else None
                    if inner is not None:
                        t = self.payload(ctx, inner)
                        continue
                t = mk_field(t, e["i"], e.get("name"), norm_std(e["adt"]) if "adt" in e else None)
            elif k == "downcast":
                t = ("variant", t, e.get("name", e["v"]))
            elif k == "index":
                t = ("index", t, self.local(ctx, e["l"]))
            else:
                t = ("unknown", "proj:" + k)
        return t

    def operand(self, ctx, o):
        k = o["k"]
        if k in ("copy", "move"):
            return self.place(ctx, o["place"])
        if k == "const":
            if "fn" in o:
                return ("fnref", norm_std(o["fn"]["full"]))
            if "promoted" in o:
                pb = self.facts.bodies.get(o["promoted"])
                if pb is not None:
                    return self.local(Ctx(pb, params=(), self_adt=ctx.self_adt, bindings=ctx.bindings,
                                          depth=ctx.depth + 1, site=ctx.site, stack=ctx.stack), 0)
            if "const_param" in o:
                return ("cparam", o["const_param"])
            if "int" in o:
                return ("int", o["int"])
            if "variant" in o:
                # a named constant of a field-less enum, evaluated by the compiler: the variant it denotes
                return ("agg", "%s::%s" % (norm_std(o["ty"]), o["variant"]), ())
            return ("const", norm_std(o["s"]))
        return ("unknown", k)

    def rvalue(self, ctx, r):
        k = r["k"]
        if k == "use":
            return self.operand(ctx, r["op"])
        if k in ("ref", "rawptr"):
            return ("ref", self.place(ctx, r["place"]))
        if k == "copy_for_deref":
            return self.place(ctx, r["place"])
        if k == "cast":
            a = self.operand(ctx, r["op"])
            ck = r["ck"].split("(")[0]
            if ck in TRANSPARENT_CASTS:
                return a
            return ("cast", ck, a)
        if k == "binop":
            return mk_bin(r["op"], self.operand(ctx, r["a"]), self.operand(ctx, r["b"]))
        if k == "unop":
            return ("un", r["op"], self.operand(ctx, r["a"]))
        if k == "discr":
            return ("discr", self.place(ctx, r["place"]))
        if k == "aggregate":
            ops = tuple(self.operand(ctx, o) for o in r["ops"])
            ak = r["ak"]
            if ak == "adt":
                return ("agg", "%s::%s" % (norm_std(r["adt"]), r["variant_name"]), ops)
            if ak == "closure":
                return ("agg", "closure:" + r["def"], ops)
            return ("agg", ak, ops)
        if k == "repeat":
            return ("agg", "repeat", (self.operand(ctx, r["op"]),))
        return ("unknown", "rv:" + k)

    # ---- calls
    def call(self, ctx, bb, t):
        body = ctx.body
        c = body.callee(bb)
        args = tuple(self.operand(ctx, a) for a in t["args"])
        site = ctx.site + ((body.def_, bb),)
        if c.indirect:
            f = self.operand(ctx, t["func"])
            return ("ret", "indirect", (f,) + args, site)
        if is_atomic(c):
            return ("atomic", c.name, args[0] if args else ("unknown", "noarg"), args[1:], site)
        mk = callee_model_key(c)
        model = PURE.get(mk)
        if model in ("from", "into") and self._conv_impl(c) is not None:
            model = None  # a conversion implemented by the crate itself: inlined like any other local function
        if model:
            return self.model_call(ctx, model, args, c)
        nctx = self.callee_ctx(ctx, bb, args)
        if nctx is not None:
            return self.local(nctx, 0)
        return ("ret", c.key, args, site)

    def callee_ctx(self, ctx, bb, args=None):
        """context of the crate-local callee of the call terminating block bb (None if not inlinable)"""
        key = ("cctx", bb)
        if key in ctx.memo:
            return ctx.memo[key]
        body = ctx.body
        c = body.callee(bb)
        nctx = None
        conv = self._conv_impl(c) if (c is not None and not c.indirect) else None
        if c is not None and not c.indirect and c.trait in ("std::ops::FnOnce", "std::ops::FnMut", "std::ops::Fn") \
                and c.name in ("call_once", "call_mut", "call") and self.inline and ctx.depth < self.MAX_DEPTH:
            # `f(x)` where f is known to be a closure of the crate (a parameter of an inlined helper bound to the closure its
            # caller passes: `self.with_iter(|it| ..)`): the closure body runs here
            if args is None:
                args = tuple(self.operand(ctx, a) for a in body.term(bb)["args"])
            clo = args[0] if args else None
            while clo is not None and clo[0] == "ref":
                clo = clo[1]
            if clo is not None and clo[0] == "agg" and clo[1].startswith("closure:"):
                d = clo[1][len("closure:"):]
                cb = self.facts.bodies.get(d)
                tup = args[1] if len(args) > 1 else None
                if cb is not None and d not in ctx.stack and tup is not None and tup[0] == "agg" and tup[1] == "tuple":
                    site = ctx.site + ((body.def_, bb),)
                    nctx = Ctx(cb, params=(clo,) + tuple(tup[2]), self_adt=ctx.self_adt, bindings=ctx.bindings,
                               depth=ctx.depth + 1, site=site, stack=ctx.stack + (d,), parent=(ctx, bb))
                    ctx.memo[key] = nctx
                    return nctx
        if c is not None and not c.indirect and not is_atomic(c) and (PURE.get(callee_model_key(c)) is None or conv) \
                and self.inline and ctx.depth < self.MAX_DEPTH:
            d = conv or self.facts.resolve_callee(c, ctx.self_adt, self.bind(ctx))
            if d and d not in ctx.stack:
                if args is None:
                    args = tuple(self.operand(ctx, a) for a in body.term(bb)["args"])
                cb = self.facts.bodies[d]
                new_self = self._callee_self(c, cb, ctx)
                site = ctx.site + ((body.def_, bb),)
                nctx = Ctx(cb, params=args, self_adt=new_self, bindings=ctx.bindings, depth=ctx.depth + 1,
                           site=site, stack=ctx.stack + (d,), parent=(ctx, bb))
        ctx.memo[key] = nctx
        return nctx

    def _conv_impl(self, c):
        """def of the crate-local `From::from` that a `From::from` / `Into::into` call runs, or None (std conversions)"""
        if PURE.get(callee_model_key(c)) not in ("from", "into"):
            return None
        F = self.facts
        if c.name == "from":
            d = c.resolved_def
            return d if d and d in F.bodies else None
        if c.name == "into" and len(c.gargs) >= 2:
            target = adt_of(c.gargs[1]) if isinstance(c.gargs[1], dict) else None
            if not target:
                return None
            cands = []
            for i in F.impls_of_trait.get("std::convert::From", []):
                if adt_of(i["self_ty"]) == target:
                    m = i["items"].get("from")
                    if isinstance(m, dict) and m["def"] in F.bodies:
                        cands.append(m["def"])
            if len(cands) == 1:
                return cands[0]
        return None

    def bind(self, ctx):
        """type-parameter bindings of ctx.body in ctx's world (set by Env)"""
        if self.bind_fn is None or not ctx.bindings:
            return None
        return self.bind_fn(ctx.body, ctx.bindings)

    def _callee_self(self, c, cb, ctx):
        a = self.facts.impl_self_adt(cb)
        if a:
            return a
        # trait default: Self stays what the call was dispatched on
        if c.self_adt:
            return c.self_adt
        if c.self_param == "Self":
            return ctx.self_adt
        b = self.bind(ctx) or {}
        k = c.self_key()
        if k and k in b:
            return b[k]
        return ctx.self_adt

    def model_call(self, ctx, model, args, c):
        if model == "deref" and args:
            # &ManuallyDrop<X> -> &X etc.: keep a marker so that places stay recognisable
            return ("call", "deref", args)
        if model in ("Option::expect", "Option::unwrap") and args:
            return payload_shallow(args[0])
        if model == "ident" and args:
            return args[0]
        if model == "Option::unwrap_or_else" and len(args) == 2:
            return ("call", "Option::unwrap_or", (args[0], self.closure_ret(ctx, args[1], [])))
        if model == "clamp" and len(args) == 3:
            # x.clamp(lo, hi) = min(max(x, lo), hi)  (panics if lo > hi; with lo = 0 on unsigned values: min(x, hi))
            x, lo, hi = args
            inner = x if lo in (("int", 0),) else ("call", "max", (x, lo))
            return ("call", "min", (inner, hi))
        if model == "Option::unwrap_or" and len(args) == 2 and args[1] == ("int", 0) and args[0][0] == "call" \
                and args[0][1] == "checked_sub" and len(args[0][2]) == 2:
            return ("call", "saturating_sub", args[0][2])  # a.checked_sub(b).unwrap_or(0)
        if model == "Option::unwrap_or" and len(args) == 2 and args[0][0] == "call" and args[0][1] == "Option::filter" \
                and len(args[0][2]) == 2:
            # `Some(x).filter(|x| *x <= d).unwrap_or(d)` is min(x, d)
            rc = args[0][2][0]
            while rc[0] == "ref":
                rc = rc[1]
            if rc[0] == "agg" and rc[1].endswith("Option::Some") and rc[2]:
                from guards import bool_facts, unref as _ur
                x_ = rc[2][0]
                cnd = self.closure_ret(ctx, args[0][2][1], [("ref", x_)])
                for f_ in bool_facts(cnd, True):
                    if len(f_) == 3 and f_[0] in ("le", "lt") and _ur(f_[1]) == _ur(x_) and _ur(f_[2]) == _ur(args[1]):
                        return ("call", "min", (x_, args[1]))
        if model == "Option::unwrap_or" and len(args) == 2 and args[0][0] == "call" and len(args[0][2]) == 2 \
                and args[0][1] in ("bool::then", "bool::then_some"):
            # cond.then(|| v).unwrap_or(d): one of the two values
            v = args[0][2][1] if args[0][1] == "bool::then_some" else self.closure_ret(ctx, args[0][2][1], [])
            from guards import bool_facts as _bf, unref as _ur2
            for f_ in _bf(args[0][2][0], True):
                # `(x <= d).then_some(x).unwrap_or(d)` is min(x, d)
                if len(f_) == 3 and f_[0] in ("le", "lt") and _ur2(f_[1]) == _ur2(v) and _ur2(f_[2]) == _ur2(args[1]):
                    return ("call", "min", (v, args[1]))
            res = mk_phi([args[1], v])
            from guards import bool_facts
            self.alt_facts.setdefault(res, {}).update({v: bool_facts(args[0][2][0], True), args[1]: bool_facts(args[0][2][0], False)})
            return res
        if model == "Option::map_or" and len(args) == 3 and args[0][0] == "call" and args[0][1] == "checked_add" \
                and len(args[0][2]) == 2:
            # a.checked_add(b).map_or(d, |e| e.min(d)) is min(a (+) b, d): an overflowing sum is clamped to d either way
            e_ = ("bound", "checked_add_payload")
            body_ = self.closure_ret(ctx, args[2], [e_])
            if body_[0] == "call" and body_[1] == "min" and len(body_[2]) == 2:
                for x_, y_ in ((body_[2][0], body_[2][1]), (body_[2][1], body_[2][0])):
                    if x_ == e_ and y_ == args[1]:
                        return ("call", "min", (("call", "saturating_add", args[0][2]), args[1]))
        if model == "Option::map_or" and len(args) == 3:
            # opt.map_or(d, f) over an Option whose alternatives are visible (`cond.then_some(v)`, Some{..} | None):
            # d, or f of the payload
            def alts(o):
                if o[0] == "agg" and o[1].endswith("Option::None"):
                    return []
                if o[0] == "agg" and o[1].endswith("Option::Some"):
                    return [o[2][0]]
                if o[0] == "call" and o[1] == "bool::then_some" and len(o[2]) == 2:
                    return [o[2][1]]
                if o[0] == "call" and o[1] == "bool::then" and len(o[2]) == 2:
                    return [self.closure_ret(ctx, o[2][1], [])]
                if o[0] == "phi":
                    out_ = []
                    for x in o[1]:
                        a_ = alts(x)
                        if a_ is None:
                            return None
                        out_.extend(a_)
                    return out_
                return None
            al = alts(args[0])
            if al is not None:
                return mk_phi([args[1]] + [self.closure_ret(ctx, args[2], [v]) for v in al])
        if model == "slice_split_at" and len(args) == 2:
            # s.split_at(k) = (&s[..k], &s[k..])
            return ("agg", "tuple", (("ref", ("call", "index", (args[0], ("agg", "std::ops::RangeTo::RangeTo", (args[1],))))),
                                     ("ref", ("call", "index", (args[0], ("agg", "std::ops::RangeFrom::RangeFrom", (args[1],)))))))
        if model in ("is_empty", "len") and args:
            # the length of a sub-slice `s[b..e]` is e - b, of `s[..n]` it is n (the indexing panics otherwise)
            v = args[0]
            while v[0] in ("ref", "deref", "inner"):
                v = v[1]
            ln = None
            # an iterator adaptor that keeps the length (`(a..b).map(f)`), a range of integers (`b.saturating_sub(a)`)
            while v[0] == "call" and v[1] in ("Iterator::map", "Iterator::cloned", "Iterator::copied", "into_iter") and v[2]:
                v = v[2][0]
                while v[0] in ("ref", "deref", "inner"):
                    v = v[1]
            if v[0] == "agg" and v[1].endswith("ops::Range::Range") and len(v[2]) == 2:
                ln = ("call", "saturating_sub", (v[2][1], v[2][0]))
            if v[0] == "call" and v[1] == "index" and len(v[2]) == 2:
                rg = v[2][1]
                while rg[0] == "ref":
                    rg = rg[1]
                if rg[0] == "agg" and rg[1].endswith("ops::Range::Range") and len(rg[2]) == 2:
                    ln = mk_bin("Sub", rg[2][1], rg[2][0])
                elif rg[0] == "agg" and rg[1].endswith("ops::RangeTo::RangeTo") and len(rg[2]) == 1:
                    ln = rg[2][0]
            if ln is not None:
                return ("call", "eq", (ln, ("int", 0))) if model == "is_empty" else ln
        if model == "is_empty" and args:
            return ("call", "eq", (("call", "len", (args[0],)), ("int", 0)))
        if model == "range_is_empty" and args:
            r = args[0]
            while r[0] == "ref":
                r = r[1]
            if r[0] == "agg" and r[1].endswith("Range::Range") and len(r[2]) == 2:
                return ("call", "ge", (r[2][0], r[2][1]))  # `s..e` is empty exactly when s >= e
            return ("call", "range_is_empty", args)
        if model == "into" or model == "from":
            a0 = args[0] if args else None
            if a0 is not None and a0[0] == "call" and a0[1] == "add" and len(a0[2]) == 2:
                # Into<usize>(start + Idx::from(p)) = p + Into<usize>(start): the index type is used as an integer (the
                # overflow of the generic addition is an OVF site of its own, judged on the MIR call)
                x, y = a0[2]
                if y[0] == "call" and y[1] == "conv" and y[2]:
                    return ("bin", "Add", y[2][0], ("call", "conv", (x,)))
            return ("call", "conv", args[:1])
        if model == "Try::branch":
            st = (c.self_ty or {}).get("s", "")
            if adt_of(c.self_ty) != "std::option::Option":
                return ("ret", c.key, args, ctx.site)
            return ("call", model, args)
        if model == "Try::from_residual":
            if adt_of(c.self_ty) != "std::option::Option":
                return ("ret", c.key, args, ctx.site)
            a = c.self_ty.get("adt", "std::option::Option")
            return ("agg", "std::option::Option::None", ())
        if model.startswith("ord_is:") and args:
            x = args[0]
            while x[0] == "ref":
                x = x[1]
            if x[0] == "call" and x[1] == "cmp":
                return ("call", model.split(":")[1], x[2])
            return ("ret", c.key, args, ctx.site)
        return ("call", model, args)

    # ---- closures and payloads
    def fn_by_path(self, path):
        """body of the crate-local function a `fnref` term names (matched on the path without generic arguments)"""
        idx = getattr(self, "_fn_by_path", None)
        if idx is None:
            idx = {}
            for b in self.facts.bodies.values():
                if not b.is_closure and b.kind != "Promoted":
                    idx.setdefault(re.sub(r"::<[^<>]*>", "", norm_std(b.path)), []).append(b)
            self._fn_by_path = idx
        key = re.sub(r"::<[^<>]*>", "", path.strip())
        c = idx.get(key, [])
        return c[0] if len(c) == 1 else None

    def closure_ret(self, ctx, clo, args):
        """Result term of calling closure term `clo` (an ('agg','closure:<def>',upvars)) with argument terms."""
        if clo[0] == "ref":
            clo = clo[1]
        if clo[0] == "fnref":
            # a path to a function of the crate used as the mapping (`len.map_or(Maybe, HasMore::from_remaining_len)`)
            cb = self.fn_by_path(clo[1])
            if cb is not None and cb.def_ not in ctx.stack and ctx.depth < self.MAX_DEPTH and len(args) == cb.arg_count:
                nctx = Ctx(cb, params=tuple(args), self_adt=self.facts.impl_self_adt(cb) or ctx.self_adt, bindings=ctx.bindings,
                           depth=ctx.depth + 1, site=ctx.site + ((cb.def_, "fnref"),), stack=ctx.stack + (cb.def_,))
                return self.local(nctx, 0)
        if clo[0] == "fnref" and len(args) == 1:
            # a path to a function used as the mapping (`opt.map(Iterator::copied)`)
            base = re.sub(r"::<[^>]*>$", "", clo[1].strip())
            last = base.rsplit("::", 1)[-1]
            if last in ("copied", "cloned") and "iter::Iterator" in base:
                return ("call", "Iterator::" + last, (args[0],))
            if last in ("copied", "cloned") and "option::Option" in base:
                return ("call", "Option::" + last, (args[0],))
            if last == "clone" and "Clone" in base:
                return ("call", "clone", (args[0],))
        if clo[0] != "agg" or not clo[1].startswith("closure:"):
            return ("ret", "closure?", (clo,) + tuple(args), ctx.site)
        d = clo[1][len("closure:"):]
        cb = self.facts.bodies.get(d)
        if cb is None or d in ctx.stack or ctx.depth >= self.MAX_DEPTH:
            return ("ret", "closure:" + d, tuple(args), ctx.site)
        nctx = Ctx(cb, params=(clo,) + tuple(args), self_adt=ctx.self_adt, bindings=ctx.bindings,
                   depth=ctx.depth + 1, site=ctx.site + ((d, "closure"),), stack=ctx.stack + (d,))
        return self.local(nctx, 0)

    def payload(self, ctx, t):
        """`Some` payload of an Option-valued term, looking through modelled combinators."""
        k = t[0]
        if k == "agg" and t[1].endswith("Option::Some"):
            return t[2][0]
        if k == "phi":
            opts = [self.payload(ctx, x) for x in t[1] if not is_none_agg(x)]
            if opts:
                return mk_phi(opts)
            return ("payload", t)
        if k == "call":
            m = t[1]
            if m == "Option::map" and len(t[2]) == 2:
                return self.closure_ret(ctx, t[2][1], [self.payload(ctx, t[2][0])])
            if m == "Option::and_then" and len(t[2]) == 2:
                return self.payload(ctx, self.closure_ret(ctx, t[2][1], [self.payload(ctx, t[2][0])]))
            if m in ("Option::cloned", "Option::copied"):
                return ("call", "clone", (self.payload(ctx, t[2][0]),))
            if m == "Option::filter" and len(t[2]) == 2:
                return self.payload(ctx, t[2][0])
            if m == "Option::zip" and len(t[2]) == 2:
                # a.zip(b) is Some((x, y)) exactly when a is Some(x) and b is Some(y)
                return ("agg", "tuple", (self.payload(ctx, t[2][0]), self.payload(ctx, t[2][1])))
            if m == "checked_sub" and len(t[2]) == 2:
                return mk_bin("Sub", t[2][0], t[2][1])    # Some(a - b) exactly when b <= a
            if m == "checked_add" and len(t[2]) == 2:
                return mk_bin("Add", t[2][0], t[2][1])    # Some(a + b) exactly when the sum does not overflow
            if m == "bool::then" and len(t[2]) == 2:
                return self.closure_ret(ctx, t[2][1], [])
            if m == "bool::then_some" and len(t[2]) == 2:
                return t[2][1]
        return ("payload", t)

    def may_be_none(self, ctx, t):
        """Conservative: can the Option-valued term be None? (used only for reporting)"""
        return True
