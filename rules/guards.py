"""Guard facts from dominating switch edges and a small, sound entailment procedure (no solver)."""
from terms import mk_phi, subterms, fmt

ORDERING = {255: "Less", 0: "Equal", 1: "Greater", -1: "Less", 18446744073709551615: "Less"}
NEG = {"lt": "ge", "le": "gt", "gt": "le", "ge": "lt", "eq": "ne", "ne": "eq"}
BINREL = {"Lt": "lt", "Le": "le", "Gt": "gt", "Ge": "ge", "Eq": "eq", "Ne": "ne"}


def unref(t):
    while t[0] == "ref":
        t = t[1]
    return t


def norm_rel(op, a, b):
    """normalise to lt/le/eq/ne with operands possibly swapped"""
    if op == "gt":
        return ("lt", b, a)
    if op == "ge":
        return ("le", b, a)
    return (op, a, b)


def discr_variants_of(body, local):
    """variants map {value: name} from the statement `_local = discriminant(x)`."""
    for (bb, si, kind, rv) in body.defs().get(local, []):
        if kind == "assign" and rv["k"] == "discr":
            v = rv.get("variants")
            if v:
                return {int(k): n for k, n in v.items()}
    return None


def bool_facts(t, val):
    """facts implied by boolean term t having value val"""
    k = t[0]
    out = []
    if k == "bin" and t[1] in BINREL:
        op = BINREL[t[1]]
        if not val:
            op = NEG[op]
        out.append(norm_rel(op, unref(t[2]), unref(t[3])))
    elif k == "call" and t[1] in ("lt", "le", "gt", "ge", "eq", "ne"):
        op = t[1]
        if not val:
            op = NEG[op]
        out.append(norm_rel(op, unref(t[2][0]), unref(t[2][1])))
    elif k == "call" and t[1] == "Option::is_some":
        out.append(("is_some", unref(t[2][0]), val))
        out.extend(checked_facts(unref(t[2][0]), val))
    elif k == "call" and t[1] == "Option::is_none":
        out.append(("is_some", unref(t[2][0]), not val))
    elif k == "un" and t[1] == "Not":
        out.extend(bool_facts(t[2], not val))
    elif k == "atomic" and t[1] == "load":
        out.append(("flag", unref(t[2]), val, t))
    else:
        out.append(("bool", t, val))
    return out


def checked_facts(X, is_some):
    """`a.checked_sub(b)` is Some exactly when b <= a (so a != 0 for b = 1)"""
    out = []
    if X[0] == "call" and X[1] == "checked_sub" and len(X[2]) == 2:
        a, b = unref(X[2][0]), unref(X[2][1])
        if is_some:
            out.append(("le", b, a))
            if b[0] == "int" and b[1] >= 1:
                out.append(("ne", a, ("int", 0)))
        else:
            out.append(("lt", a, b))
            if b == ("int", 1):
                out.append(("eq", a, ("int", 0)))
    return out


def slice_get_facts(X, possible):
    """`s.get(i)` is Some exactly when the index / range is in bounds"""
    S, idx = X[2][0], unref(X[2][1])
    L = ("call", "len", (S,))
    # a prefix view `base[..n]` has length n (the indexing panics otherwise)
    v = S
    while v[0] in ("ref", "deref", "inner"):
        v = v[1]
    if v[0] == "call" and v[1] == "index" and len(v[2]) == 2:
        rg = unref(v[2][1])
        if rg[0] == "agg" and rg[1].endswith("ops::RangeTo::RangeTo") and len(rg[2]) == 1:
            L = unref(rg[2][0])
    out = []
    if possible == {"Some"}:
        if idx[0] == "agg" and idx[1].endswith("ops::RangeFrom::RangeFrom"):
            out.append(("le", unref(idx[2][0]), L))
        elif idx[0] == "agg" and idx[1].endswith("ops::Range::Range"):
            out.append(("le", unref(idx[2][0]), unref(idx[2][1])))
            out.append(("le", unref(idx[2][1]), L))
        elif idx[0] == "agg" and idx[1].endswith("ops::RangeTo::RangeTo"):
            out.append(("le", unref(idx[2][0]), L))
        elif idx[0] != "agg":
            out.append(("lt", idx, L))
    elif possible == {"None"}:
        if idx[0] == "agg" and idx[1].endswith("ops::RangeFrom::RangeFrom"):
            out.append(("lt", L, unref(idx[2][0])))
        elif idx[0] != "agg":
            out.append(("le", L, idx))
    return out


def _const_bool(t):
    if t in (("const", "true"), ("int", 1)):
        return True
    if t in (("const", "false"), ("int", 0)):
        return False
    return None


def term_cases(t):
    """[(class, facts, value term)] a value term can fall into; class is True/False for booleans, 'Some'/'None' for
    Options. A term of unknown type is given all four classes."""
    cb = _const_bool(t)
    if cb is not None:
        return [(cb, [], t)]
    k = t[0]
    if k == "agg" and t[1].endswith("Option::Some"):
        return [("Some", [], t)]
    if k == "agg" and t[1].endswith("Option::None"):
        return [("None", [], t)]
    if k == "agg" and "::" in t[1] and not t[2] and not t[1].startswith("std::"):
        # a field-less variant of a crate-local enum (`enum Turn { Mine, NotYet, Over }`): the class is the variant name
        return [(t[1].rsplit("::", 1)[1], [], t)]
    if k == "un" and t[1] == "Not":
        return [((not K) if isinstance(K, bool) else K, fs, t) for (K, fs, _) in term_cases(t[2])]
    if k == "phi":
        out = []
        for o in t[1]:
            out.extend(term_cases(o))
        return out
    if k == "call" and t[1] == "Option::map" and len(t[2]) == 2:
        src = unref(t[2][0])
        return [("Some", [("is_some", src, True)], t), ("None", [("is_some", src, False)], t)]
    if k == "call" and t[1] == "Option::zip" and len(t[2]) == 2:
        a, b = unref(t[2][0]), unref(t[2][1])
        return [("Some", [("is_some", a, True), ("is_some", b, True)], t), ("None", [], t)]
    if k == "call" and t[1] in ("bool::then", "bool::then_some") and len(t[2]) == 2:
        some_v = ("agg", "std::option::Option::Some", (t[2][1],)) if t[1] == "bool::then_some" else t
        return [("Some", bool_facts(t[2][0], True), some_v), ("None", bool_facts(t[2][0], False), t)]
    return [(True, bool_facts(t, True), t), (False, bool_facts(t, False), t), ("Some", [("is_some", unref(t), True)], t),
            ("None", [("is_some", unref(t), False)], t)]


def _plain_local(op):
    if op["k"] in ("copy", "move") and not op["place"]["p"]:
        return op["place"]["l"]
    return None


def local_cases(ev, ctx, l, allow_multi=False, depth=0):
    """Site based case split of the value of local l: [(class, facts that hold when the local got a value of that class)].
    Follows copies, `!x`, `x?` and calls of crate-local functions (whose return value is split by its definition sites,
    each with the guard facts of its block, expressed in the caller's terms). None when nothing is known."""
    sc = site_cases(ev, ctx, l, allow_multi, depth)
    if sc is None:
        return None
    out = []
    for bb in sorted(sc):
        out.extend(sc[bb])
    return out


def site_cases(ev, ctx, l, allow_multi=False, depth=0):
    """{defining block: [(class, facts)]} for local l (see local_cases)"""
    from terms import PURE, callee_model_key
    body = ctx.body
    if depth > 8 or (1 <= l <= body.arg_count):
        return None
    defs = [d for d in body.defs().get(l, []) if not body.blocks[d[0]]["cleanup"]]
    if not defs or (len(defs) > 1 and not allow_multi):
        return None
    out = {}
    for (bb, si, kind, payload) in defs:
        base = list(block_facts(ev, ctx, bb))
        # a definition in a block where several branches meet (`a || b => return false`): one case per incoming edge, each
        # with what is known on that edge
        base_alts = None
        if kind == "assign":
            preds = [p for p in body.preds().get(bb, []) if not body.blocks[p]["cleanup"]]
            back = set(body.back_edges())
            if len(preds) > 1 and not any((p, bb) in back for p in preds):
                base_alts = []
                for p in preds:
                    fs_p = list(block_facts(ev, ctx, p))
                    tp = body.term(p)
                    if tp["k"] == "switch":
                        listed = [v for v, _ in tp["targets"]]
                        vals = [v for v, tb in tp["targets"] if tb == bb]
                        is_other = (bb == tp["otherwise"])
                        if not (is_other and vals):
                            for f in switch_facts(ev, ctx, p, vals, is_other, listed):
                                if f not in fs_p:
                                    fs_p.append(f)
                    base_alts.append(fs_p)
        sub = None
        if kind == "assign":
            rv = payload
            if rv["k"] == "use":
                pl = _plain_local(rv["op"])
                if pl is not None:
                    sub = local_cases(ev, ctx, pl, allow_multi, depth + 1)
            elif rv["k"] == "unop" and rv["op"] == "Not":
                pl = _plain_local(rv["a"])
                if pl is not None:
                    sub = local_cases(ev, ctx, pl, False, depth + 1)
                    if sub is not None:
                        sub = [((not K) if isinstance(K, bool) else K, fs, None) for (K, fs, v) in sub]
            if sub is None:
                sub = term_cases(ev.rvalue(ctx, rv))
        elif kind == "call":
            c = body.callee(bb)
            model = PURE.get(callee_model_key(c)) if (c is not None and not c.indirect) else None
            if model == "Try::branch" and payload["args"]:
                pl = _plain_local(payload["args"][0])
                if pl is not None:
                    sub = local_cases(ev, ctx, pl, False, depth + 1)
                    if sub is not None:
                        sub = [({"Some": "Continue", "None": "Break"}.get(K, K), fs, None) for (K, fs, v) in sub]
            if sub is None and model in ("bool::then_some", "bool::then") and len(payload["args"]) == 2:
                # Some(v) exactly when the condition holds: split by where the condition got its value
                pl = _plain_local(payload["args"][0])
                csub = local_cases(ev, ctx, pl, False, depth + 1) if pl is not None else None
                if csub is None:
                    csub = term_cases(ev.operand(ctx, payload["args"][0]))
                vcall = ev.call(ctx, bb, payload)
                if model == "bool::then_some":
                    some_v = ("agg", "std::option::Option::Some", (ev.operand(ctx, payload["args"][1]),))
                else:
                    some_v = ("agg", "std::option::Option::Some", (ev.payload(ctx, vcall),))
                sub = []
                for (K, fs, v) in csub:
                    if K is True:
                        sub.append(("Some", fs, some_v))
                    elif K is False:
                        sub.append(("None", fs, vcall))
            if sub is None and model in ("Option::map", "Option::cloned", "Option::copied") and payload["args"]:
                # Some exactly when the receiver is Some: split by where the receiver got its value, keeping what is known
                # there (`self.reserve(n).map(|(begin, _)| begin)`)
                pl = _plain_local(payload["args"][0])
                csub = local_cases(ev, ctx, pl, False, depth + 1) if pl is not None else None
                if csub:
                    recv = unref(ev.operand(ctx, payload["args"][0]))
                    vcall = ev.call(ctx, bb, payload)
                    sub = []
                    for (K, fs, v) in csub:
                        if K == "Some":
                            if v is not None and v[0] == "agg" and v[2] and model == "Option::map" and len(payload["args"]) == 2:
                                mv = ("agg", "std::option::Option::Some",
                                      (ev.closure_ret(ctx, ev.operand(ctx, payload["args"][1]), [v[2][0]]),))
                            elif v is not None and v[0] == "agg" and v[2]:
                                mv = ("agg", "std::option::Option::Some", (("call", "clone", (v[2][0],)),))
                            else:
                                mv = vcall
                            sub.append(("Some", list(fs) + [("is_some", recv, True)], mv))
                        elif K == "None":
                            sub.append(("None", list(fs) + [("is_some", recv, False)], ("agg", "std::option::Option::None", ())))
                    if not sub:
                        sub = None
            if sub is None and model == "Option::and_then" and len(payload["args"]) == 2:
                # Some exactly when the receiver is Some and the closure returns Some: the closure's own return cases, under
                # what is known of the receiver
                from terms import Ctx
                recv = unref(ev.operand(ctx, payload["args"][0]))
                clo = ev.operand(ctx, payload["args"][1])
                c0 = clo[1] if clo[0] == "ref" else clo
                if c0[0] == "agg" and c0[1].startswith("closure:"):
                    d_ = c0[1][len("closure:"):]
                    cb_ = ev.facts.bodies.get(d_)
                    if cb_ is not None and d_ not in ctx.stack and ctx.depth < ev.MAX_DEPTH:
                        cctx_ = Ctx(cb_, params=(c0, ev.payload(ctx, recv)), self_adt=ctx.self_adt, bindings=ctx.bindings,
                                    depth=ctx.depth + 1, site=ctx.site + ((d_, "closure"),), stack=ctx.stack + (d_,))
                        cc = local_cases(ev, cctx_, 0, True, depth + 1)
                        if cc:
                            sub = [(K, [("is_some", recv, True)] + list(fs), v) for (K, fs, v) in cc if K in ("Some", "None")]
                            sub.append(("None", [("is_some", recv, False)], ("agg", "std::option::Option::None", ())))
            if sub is None and model == "Option::filter" and len(payload["args"]) == 2:
                # Some(x) exactly when the receiver is Some(x) and the predicate holds for x
                recv = ev.operand(ctx, payload["args"][0])
                clo = ev.operand(ctx, payload["args"][1])
                pay = ev.payload(ctx, recv)
                cond = ev.closure_ret(ctx, clo, [("ref", pay)])
                v = ev.call(ctx, bb, payload)
                rv_ = unref(recv)
                lit_some = rv_[0] == "agg" and rv_[1].endswith("Option::Some")
                # (`Some(x).filter(p)` is None exactly when p(x) fails)
                sub = [("Some", [("is_some", unref(recv), True)] + bool_facts(cond, True),
                        ("agg", "std::option::Option::Some", (pay,))),
                       ("None", bool_facts(cond, False) if lit_some else [], v)]
            if sub is None:
                nctx = ev.callee_ctx(ctx, bb)
                if nctx is not None:
                    sub = local_cases(ev, nctx, 0, True, depth + 1)
            if sub is None:
                sub = term_cases(ev.call(ctx, bb, payload))
                sub = sub + [({"Some": "Continue", "None": "Break"}[K], fs, None) for (K, fs, v) in sub if K in ("Some", "None")]
        else:
            return None
        lst = out.setdefault(bb, [])
        for base_ in (base_alts or [base]):
            for (K, fs, v) in sub:
                lst.append((K, base_ + [f for f in fs if f not in base_], v))
    return out


def monotone_flag(body, l):
    """(set value, [setting blocks], init block) if bool local l is initialised with a constant in exactly one place that
    dominates all its other assignments, and is otherwise only assigned the opposite constant; else None"""
    defs = [d for d in body.defs().get(l, []) if not body.blocks[d[0]]["cleanup"]]
    if len(defs) < 2 or body.locals[l]["ty"]["s"] != "bool" or (1 <= l <= body.arg_count):
        return None
    vals = []
    for (bb, si, kind, rv) in defs:
        if kind != "assign" or rv["k"] != "use" or rv["op"].get("k") != "const" or "int" not in rv["op"]:
            return None
        vals.append((bb, bool(rv["op"]["int"])))
    dom = body.dominators()
    for (ib, iv) in vals:
        others = [(b_, v_) for (b_, v_) in vals if b_ != ib]
        if others and all(v_ != iv for (_b, v_) in others) and all(ib in dom.get(b_, set()) for (b_, _v) in others):
            return (not iv, [b_ for (b_, _v) in others], ib)
    return None


def class_facts(cases, K):
    """facts common to all cases of class K ([] when there is none)"""
    sel = [c[1] for c in cases if type(c[0]) is type(K) and c[0] == K]
    if not sel:
        return []
    return [f for f in sel[0] if all(f in s for s in sel[1:])]


def _site_facts(ev, ctx, bb, l, K):
    """facts implied by local l (defined before the switch ending block bb) having a value of class K"""
    body = ctx.body
    defs = [d for d in body.defs().get(l, []) if not body.blocks[d[0]]["cleanup"]]
    # (a temporary that is a plain copy of another local: judged on that local)
    hops = 0
    while len(defs) == 1 and defs[0][2] == "assign" and defs[0][3]["k"] == "use" and hops < 3 and isinstance(K, bool) \
            and _plain_local(defs[0][3]["op"]) is not None \
            and len([d for d in body.defs().get(_plain_local(defs[0][3]["op"]), []) if not body.blocks[d[0]]["cleanup"]]) > 1:
        l = _plain_local(defs[0][3]["op"])
        defs = [d for d in body.defs().get(l, []) if not body.blocks[d[0]]["cleanup"]]
        hops += 1
    if len(defs) > 1 and isinstance(K, bool) and not getattr(ev, "_inprogress", None):
        # a monotone flag (`let mut exhausted = false; loop { .. None => { exhausted = true; break } }`): initialised with
        # one constant before, assigned only the other constant afterwards. Finding it set says that one of the setting
        # sites was passed: what every setting site knows about *results of calls* (values that do not change any more)
        mf = monotone_flag(body, l)
        if mf is not None and mf[0] == K:
            sets = []
            for sb_ in mf[1]:
                sets.append([f for f in block_facts(ev, ctx, sb_) if f[0] == "is_some" and len(f) == 3
                             and isinstance(f[1], tuple) and f[1][0] in ("ret", "call")])
            if sets:
                return [f for f in sets[0] if all(f in s_ for s_ in sets[1:])]
        return []
    if len(defs) != 1 or defs[0][0] not in body.dominators().get(bb, set()) | {bb}:
        return []
    if getattr(ev, "_inprogress", None):
        return []
    key = ("sitecases", l)
    cases = ctx.memo.get(key)
    if cases is None:
        cases = local_cases(ev, ctx, l) or []
        ctx.memo[key] = cases
    known = block_facts(ev, ctx, bb)  # what holds before the edge is taken is not news
    out = [f for f in class_facts(cases, K) if f not in known]
    sel = [c[1] for c in cases if type(c[0]) is type(K) and c[0] == K]
    if len(sel) > 1:
        # the value was produced at one of several sites: a disjunction, for rules that judge every alternative
        alts = tuple(tuple(f for f in fs if f not in known and f[0] != "anyof") for fs in sel)
        if all(alts) and len(set(alts)) > 1:
            out.append(("anyof", alts))
    return out


def _referent_local(body, op):
    """the local x for an operand holding `&x` (a plain local with one definition `&x`)"""
    pl = _plain_local(op)
    if pl is None:
        return None
    defs = [d for d in body.defs().get(pl, []) if not body.blocks[d[0]]["cleanup"]]
    if len(defs) == 1 and defs[0][2] == "assign" and defs[0][3]["k"] == "ref" and not defs[0][3]["place"]["p"]:
        return defs[0][3]["place"]["l"]
    return None


def _enum_eq_facts(ev, ctx, bb, bool_local, val):
    body = ctx.body
    defs = [d for d in body.defs().get(bool_local, []) if not body.blocks[d[0]]["cleanup"]]
    if len(defs) != 1 or defs[0][2] != "call":
        return []
    dbb, _si, _k, t = defs[0]
    c = body.callee(dbb)
    if c is None or c.indirect or c.trait != "std::cmp::PartialEq" or c.name not in ("eq", "ne") or len(t["args"]) != 2:
        return []
    if c.name == "ne":
        val = not val
    for i, j in ((0, 1), (1, 0)):
        v = unref(ev.operand(ctx, t["args"][j]))
        if not (v[0] == "agg" and not v[2] and "::" in v[1] and not v[1].startswith("std::")):
            continue
        epath, vname = v[1].rsplit("::", 1)
        a = ev.facts.adts.get(epath)
        if not a or a.get("kind") != "Enum" or any(x["fields"] for x in a["variants"]):
            continue
        xl = _referent_local(body, t["args"][i])
        if xl is None:
            continue
        if val:
            return _site_facts(ev, ctx, bb, xl, vname)
        others = [x["name"] for x in a["variants"] if x["name"] != vname]
        if len(others) == 1:
            return _site_facts(ev, ctx, bb, xl, others[0])
    return []


def switch_facts(ev, ctx, bb, target_vals, is_otherwise, listed_vals):
    """facts for taking an edge of the switch terminating block bb.
    target_vals: values leading to the taken target (empty for pure otherwise); listed_vals: all listed values."""
    body = ctx.body
    t = body.term(bb)
    discr = t["discr"]
    T = ev.operand(ctx, discr)
    out = []
    # enum discriminant
    if T[0] == "discr":
        X = unref(T[1])
        variants = None
        if discr["k"] in ("copy", "move") and not discr["place"]["p"]:
            variants = discr_variants_of(body, discr["place"]["l"])
        names_all = set(variants.values()) if variants else None

        def nm(v):
            if variants and v in variants:
                return variants[v]
            return None
        if is_otherwise:
            excluded = {nm(v) for v in listed_vals}
            if names_all and None not in excluded:
                possible = names_all - excluded
            else:
                possible = None
        else:
            possible = {nm(v) for v in target_vals}
            if None in possible:
                possible = None
        if possible is None:
            return out
        if len(possible) == 1 and discr["k"] in ("copy", "move") and not discr["place"]["p"]:
            # `_d = discriminant(_x)`: what is known from where _x got its value
            for (dbb, si, kind, rv) in body.defs().get(discr["place"]["l"], []):
                if kind == "assign" and rv["k"] == "discr" and not rv["place"]["p"]:
                    for f in _site_facts(ev, ctx, bb, rv["place"]["l"], list(possible)[0]):
                        if f not in out:
                            out.append(f)
        if X[0] == "call" and X[1] == "cmp":
            a, b = unref(X[2][0]), unref(X[2][1])
            p = frozenset(possible)
            m = {frozenset(["Less"]): "lt", frozenset(["Equal"]): "eq", frozenset(["Greater"]): "gt",
                 frozenset(["Less", "Equal"]): "le", frozenset(["Greater", "Equal"]): "ge",
                 frozenset(["Less", "Greater"]): "ne"}
            if p in m:
                out.append(norm_rel(m[p], a, b))
        elif X[0] == "call" and X[1] == "Try::branch" and possible in ({"Continue"}, {"Break"}):
            out.append(("is_some", unref(X[2][0]), possible == {"Continue"}))
            inner = unref(X[2][0])
            if inner[0] == "call" and inner[1] == "slice_get" and len(inner[2]) == 2:
                out.extend(slice_get_facts(inner, {"Some"} if possible == {"Continue"} else {"None"}))
            out.extend(checked_facts(inner, possible == {"Continue"}))
        else:
            if possible == {"Some"}:
                out.append(("is_some", X, True))
                out.extend(checked_facts(X, True))
            elif possible == {"None"}:
                out.append(("is_some", X, False))
                out.extend(checked_facts(X, False))
            if X[0] == "call" and X[1] == "Option::zip" and len(X[2]) == 2 and possible == {"Some"}:
                out.append(("is_some", unref(X[2][0]), True))
                out.append(("is_some", unref(X[2][1]), True))
            if X[0] == "call" and X[1] in ("bool::then", "bool::then_some") and possible in ({"Some"}, {"None"}):
                out.extend(bool_facts(X[2][0], possible == {"Some"}))
            if X[0] == "call" and X[1] == "slice_get" and len(X[2]) == 2:
                out.extend(slice_get_facts(X, possible))
            else:
                out.append(("variant_in", X, frozenset(possible)))
        return out
    # bool
    dty = t.get("discr_ty", "")
    if dty == "bool":
        val = None
        if is_otherwise:
            # listed are the excluded values (normally [0])
            if set(listed_vals) == {0}:
                val = True
            elif set(listed_vals) == {1}:
                val = False
        else:
            if set(target_vals) == {0}:
                val = False
            elif set(target_vals) == {1}:
                val = True
        if val is not None:
            out.extend(bool_facts(T, val))
            pl = _plain_local(discr)
            if pl is not None:
                for f in _site_facts(ev, ctx, bb, pl, val):
                    if f not in out:
                        out.append(f)
                # `x == Enum::V` / `x != Enum::V` on a field-less enum of the crate (derived PartialEq): what is known where
                # x got a value of that variant (of the one other variant, for a two-variant enum)
                for f in _enum_eq_facts(ev, ctx, bb, pl, val):
                    if f not in out:
                        out.append(f)
        return out
    # integers
    T = unref(T)
    if is_otherwise:
        for v in listed_vals:
            out.append(("ne", T, ("int", v)))
    elif len(set(target_vals)) == 1:
        out.append(("eq", T, ("int", list(target_vals)[0])))
    return out


def derive_satsub(out):
    """saturating_sub(a, b) == 0 exactly when a <= b; != 0 (or 0 < it) exactly when b < a: adds the order facts (in place)"""
    for f in list(out):
        if len(f) == 3 and f[0] in ("eq", "ne", "lt", "le"):
            x = z = None
            if f[0] in ("eq", "ne"):
                for p_, q_ in ((f[1], f[2]), (f[2], f[1])):
                    if q_ == ("int", 0) and isinstance(p_, tuple):
                        x, z = unref(p_), f[0]
            elif f[0] == "lt" and f[1] == ("int", 0) and isinstance(f[2], tuple):
                x, z = unref(f[2]), "ne"
            elif f[0] == "le" and f[2] == ("int", 0) and isinstance(f[1], tuple):
                x, z = unref(f[1]), "eq"
            if x is not None and x[0] == "call" and x[1] == "saturating_sub" and len(x[2]) == 2:
                a_, b_ = unref(x[2][0]), unref(x[2][1])
                g = ("le", a_, b_) if z == "eq" else ("lt", b_, a_)
                if g not in out:
                    out.append(g)
            if x is not None and x[0] == "bin" and x[1] == "Sub" and f[0] in ("eq", "ne"):
                # a - b == 0 exactly when a == b (also modulo 2^64)
                a_, b_ = unref(x[2]), unref(x[3])
                g = (z, a_, b_)
                if g not in out and (z, b_, a_) not in out:
                    out.append(g)
                    if z == "eq":
                        out.append(("le", a_, b_))
                        out.append(("le", b_, a_))
    # a <= b and a != b give a < b
    les_ = [(f[1], f[2]) for f in out if len(f) == 3 and f[0] == "le"]
    for f in list(out):
        if len(f) == 3 and f[0] == "ne":
            for (p_, q_) in ((f[1], f[2]), (f[2], f[1])):
                if (p_, q_) in les_ and ("lt", p_, q_) not in out:
                    out.append(("lt", p_, q_))
    return out


def block_facts(ev, ctx, bb, unwind=False):
    """Facts that hold whenever block bb of ctx.body executes (from dominating switch/assert edges)."""
    body = ctx.body
    key = ("facts", bb, unwind)
    if key in ctx.memo:
        return ctx.memo[key]
    dom = body.dominators(unwind).get(bb, set())
    preds = body.preds(unwind)
    out = list(getattr(ctx, "entry_facts", ()) or ())
    for d in sorted(dom):
        t = body.term(d)
        if t["k"] == "switch":
            listed = [v for v, _ in t["targets"]]
            # group values by target
            by_target = {}
            for v, b in t["targets"]:
                by_target.setdefault(b, []).append(v)
            other = t["otherwise"]
            for s in set(list(by_target.keys()) + [other]):
                if s == d:
                    continue
                if not (s == bb or s in dom):
                    continue
                # the edge d->s must be the only way into s
                if any(p != d for p in preds[s]):
                    continue
                vals = by_target.get(s, [])
                is_other = (s == other)
                if is_other and vals:
                    # both listed values and otherwise lead here: no usable fact
                    continue
                out.extend(switch_facts(ev, ctx, d, vals, is_other, listed))
        elif t["k"] == "call" and d != bb:
            # a successful slice/Vec index implies index < len on everything the return edge dominates
            s = t.get("target")
            if s is not None and (s == bb or s in dom) and all(p == d for p in preds[s]):
                c = body.callee(d)
                if c is not None and not c.indirect and c.trait in ("std::ops::Index", "std::ops::IndexMut") \
                        and len(t["args"]) == 2:
                    base = ev.operand(ctx, t["args"][0])
                    idx = unref(ev.operand(ctx, t["args"][1]))
                    if not (idx[0] == "agg"):
                        out.append(("lt", idx, ("call", "len", (base,))))
        elif t["k"] == "assert":
            s = t["target"]
            if (s == bb or s in dom) and d != bb and all(p == d for p in preds[s]):
                c = ev.operand(ctx, t["cond"])
                if t["msg"].startswith("Overflow"):
                    # assert(!ovf(a op b)) : record as no-overflow fact
                    if c[0] == "ovf":
                        out.append(("no_ovf", c[1], c[2], c[3]))
                else:
                    out.extend(bool_facts(c, bool(t["expected"])))
    derive_satsub(out)
    # antisymmetry: a <= b and b <= a give a == b (`while a > b {..}; if a < b {return}` leaves a == b)
    les = [(f[1], f[2]) for f in out if f[0] == "le" and len(f) == 3]
    nes = [(f[1], f[2]) for f in out if f[0] == "ne" and len(f) == 3]
    for (a, b) in les:
        if (b, a) in les and ("eq", a, b) not in out and ("eq", b, a) not in out:
            out.append(("eq", a, b))
        # a <= b and a != b give a < b (`match a.cmp(&b) { Equal => .., _ => .. }` after `a <= b` is known)
        if ((a, b) in nes or (b, a) in nes) and ("lt", a, b) not in out:
            out.append(("lt", a, b))
    if not getattr(ev, "_inprogress", None):
        ctx.memo[key] = out  # (facts computed in the middle of a local's evaluation may contain cycle markers)
    return out


def full_block_facts(ev, ctx, bb):
    """block facts of bb plus those of every call site up the chain of inlined activations"""
    out = list(block_facts(ev, ctx, bb))
    c = ctx
    guard = 0
    while getattr(c, "parent", None) is not None and guard < 12:
        pc, pbb = c.parent
        for f in block_facts(ev, pc, pbb):
            if f not in out:
                out.append(f)
        c = pc
        guard += 1
    return out


def range_elem(t):
    """(lo, hi) if term t is an element produced by iterating a half-open range lo..hi: the payload of
    `Iterator::next(&mut (lo..hi).into_iter())` (a `for i in lo..hi` loop)"""
    t = unref(t)
    if t[0] == "payload" and t[1][0] == "ret" and t[1][1] == "std::iter::Iterator::next" and t[1][2]:
        a = unref(t[1][2][0])
        if a[0] == "call" and a[1] == "into_iter" and a[2]:
            a = unref(a[2][0])
        if a[0] == "agg" and a[1].endswith("ops::Range::Range") and len(a[2]) == 2:
            return unref(a[2][0]), unref(a[2][1])
    return None


class Prover:
    """Entailment over lt/le/eq/ne facts on terms. Deliberately small and sound."""

    def __init__(self, facts, ev=None, ctx=None, extra_le=None, payload_facts=None, option_facts=None):
        self.option_facts = option_facts if option_facts is not None else (ev.option_facts if ev is not None else {})
        self.facts = list(facts)
        self.ev = ev
        self.ctx = ctx
        self.extra_le = extra_le or []  # struct invariants etc.: list of (a,b) with a<=b
        self.payload_facts = payload_facts or {}
        self._stack = set()

    def _opt(self, phi, x):
        """prover for reasoning about one option x of a phi: the facts of x's defining block hold in addition"""
        extra = self.option_facts.get((phi, x))
        if not extra:
            return self
        p = self.with_facts(extra)
        p._stack = self._stack
        return p

    def with_facts(self, more):
        import copy
        p = copy.copy(self)
        p.facts = self.facts + [f for f in more if f not in self.facts]
        p._stack = set()
        return p

    def _facts_for(self, a):
        for f in self.facts:
            yield f
        for f in self.payload_facts.get(a, []):
            yield f

    def eq(self, a, b):
        a, b = unref(a), unref(b)
        if a == b:
            return True
        for f in self.facts:
            if f[0] == "eq" and ((f[1] == a and f[2] == b) or (f[1] == b and f[2] == a)):
                return True
        if a[0] == "call" and a[1] == "conv":
            return self.eq(a[2][0], b) if b[0] != "call" or b[1] != "conv" else self.eq(a[2][0], b[2][0])
        return False

    def le(self, a, b, depth=0):
        a, b = unref(a), unref(b)
        key = ("le", a, b)
        if key in self._stack or depth > 6:
            return False
        self._stack.add(key)
        try:
            return self._le(a, b, depth)
        finally:
            self._stack.discard(key)

    def _le(self, a, b, depth):
        if self.eq(a, b):
            return True
        ra, rb = range_elem(a), range_elem(b)
        if ra is not None and self.le(ra[1], b, depth + 1):
            return True  # a < hi <= b
        if rb is not None and self.le(a, rb[0], depth + 1):
            return True  # a <= lo <= b
        if a[0] == "int" and b[0] == "int":
            return a[1] <= b[1]
        if a[0] == "int" and a[1] == 0:
            return True  # unsigned
        if a[0] == "int" and a[1] == 1:
            for f in self.facts:
                if f[0] == "ne" and len(f) == 3 and ((f[1] == b and f[2] == ("int", 0)) or (f[2] == b and f[1] == ("int", 0))):
                    return True  # b != 0 (unsigned) => 1 <= b
        if b[0] == "int" and b[1] >= 18446744073709551615:
            return True
        for (x, y) in self.extra_le:
            if x == a and self.le(y, b, depth + 1):
                return True
        # structural on a
        if a[0] == "call":
            m = a[1]
            if m == "min" and (self.le(a[2][0], b, depth + 1) or self.le(a[2][1], b, depth + 1)):
                return True
            if m == "max" and self.le(a[2][0], b, depth + 1) and self.le(a[2][1], b, depth + 1):
                return True
            if m == "saturating_sub" and self.le(a[2][0], b, depth + 1):
                return True
            if m == "Option::unwrap_or":
                if self._payload_le(a[2][0], b, depth) and self.le(a[2][1], b, depth + 1):
                    return True
        if a[0] == "phi":
            if all(self._opt(a, x).le(x, b, depth + 1) for x in a[1]):
                return True
        if a[0] == "bin" and a[1] == "Add":
            # x + min(n, L - x) <= L (L - x not underflowing is a separate obligation)
            for x, y in ((a[2], a[3]), (a[3], a[2])):
                y = unref(y)
                if y[0] == "call" and y[1] == "min" and len(y[2]) == 2:
                    for d in y[2]:
                        d = unref(d)
                        if d[0] == "bin" and d[1] == "Sub" and unref(d[3]) == unref(x) and self.le(d[2], b, depth + 1):
                            return True
        if a[0] == "bin" and a[1] == "Sub":
            # x - y <= x (when it does not underflow, which is a separate obligation)
            if self.le(a[2], b, depth + 1):
                return True
        # structural on b
        if b[0] == "call":
            m = b[1]
            if m == "max" and (self.le(a, b[2][0], depth + 1) or self.le(a, b[2][1], depth + 1)):
                return True
            if m == "min" and self.le(a, b[2][0], depth + 1) and self.le(a, b[2][1], depth + 1):
                return True
            if m == "saturating_add" and (self.le(a, b[2][0], depth + 1) or self.le(a, b[2][1], depth + 1)):
                return True
        if b[0] == "phi":
            if all(self._opt(b, x).le(a, x, depth + 1) for x in b[1]):
                return True
        if b[0] == "bin" and b[1] == "Add":
            # a <= x + y if a <= x (no-overflow is a separate obligation)
            if self.le(a, b[2], depth + 1) or self.le(a, b[3], depth + 1):
                return True
        # facts (transitivity)
        for f in self._facts_for(a):
            if f[0] in ("lt", "le", "eq") and len(f) == 3:
                if f[1] == a and f[2] != a and self.le(f[2], b, depth + 1):
                    return True
                if f[0] == "eq" and f[2] == a and f[1] != a and self.le(f[1], b, depth + 1):
                    return True
        return False

    def _payload_le(self, o, b, depth):
        """payload(o) <= b for an Option-valued term o"""
        if self.ev is None:
            return False
        p = self.ev.payload(self.ctx, o)
        if p[0] == "payload":
            return False
        return self.le(p, b, depth + 1)

    def _payload_lt(self, o, b, depth):
        if self.ev is None:
            return False
        p = self.ev.payload(self.ctx, o)
        if p[0] == "payload":
            return False
        return self.lt(p, b, depth + 1)

    def lt(self, a, b, depth=0):
        a, b = unref(a), unref(b)
        key = ("lt", a, b)
        if key in self._stack or depth > 6:
            return False
        self._stack.add(key)
        try:
            return self._lt(a, b, depth)
        finally:
            self._stack.discard(key)

    def _lt(self, a, b, depth):
        if a[0] == "int" and b[0] == "int":
            return a[1] < b[1]
        ra = range_elem(a)
        if ra is not None and self.le(ra[1], b, depth + 1):
            return True  # a < hi <= b
        for f in self._facts_for(a):
            if len(f) != 3:
                continue
            if f[0] == "lt" and f[1] == a and self.le(f[2], b, depth + 1):
                return True
            if f[0] in ("le", "eq") and f[1] == a and f[2] != a and self.lt(f[2], b, depth + 1):
                return True
            if f[0] == "eq" and f[2] == a and f[1] != a and self.lt(f[1], b, depth + 1):
                return True
        if a[0] == "call":
            m = a[1]
            if m == "min" and (self.lt(a[2][0], b, depth + 1) or self.lt(a[2][1], b, depth + 1)):
                return True
            if m == "max" and self.lt(a[2][0], b, depth + 1) and self.lt(a[2][1], b, depth + 1):
                return True
        if a[0] == "phi" and all(self.lt(x, b, depth + 1) for x in a[1]):
            return True
        if b[0] == "call" and b[1] == "max" and (self.lt(a, b[2][0], depth + 1) or self.lt(a, b[2][1], depth + 1)):
            return True
        if b[0] == "call" and b[1] == "min" and self.lt(a, b[2][0], depth + 1) and self.lt(a, b[2][1], depth + 1):
            return True
        # a < a (+) n when n != 0 and a is below some value (so below the maximum): the saturating sum is a + n or MAX > a
        if b[0] == "call" and b[1] == "saturating_add" and len(b[2]) == 2:
            for x, n_ in ((b[2][0], b[2][1]), (b[2][1], b[2][0])):
                if unref(x) == a:
                    n_ = unref(n_)
                    nz = (n_[0] == "int" and n_[1] > 0) or any(
                        len(f) == 3 and ((f[0] == "ne" and {unref(f[1]), unref(f[2])} == {n_, ("int", 0)}) or
                                         (f[0] == "lt" and f[1] == ("int", 0) and unref(f[2]) == n_)) for f in self.facts)
                    below = any(len(f) == 3 and f[0] == "lt" and unref(f[1]) == a for f in self._facts_for(a))
                    if nz and below:
                        return True
        # a < b from a <= c, c < b
        for f in self._facts_for(b):
            if len(f) == 3 and f[0] == "lt" and f[2] == b and self.le(a, f[1], depth + 1):
                return True
        # a != b and a <= b   (b - a != 0 says a != b as well)
        for f in self.facts:
            if f[0] == "ne" and len(f) == 3 and ((f[1] == a and f[2] == b) or (f[1] == b and f[2] == a)):
                if self.le(a, b, depth + 1):
                    return True
            if f[0] == "ne" and len(f) == 3 and f[2] == ("int", 0) and f[1][0] == "bin" and f[1][1] == "Sub" \
                    and unref(f[1][2]) == b and unref(f[1][3]) == a:
                if self.le(a, b, depth + 1):
                    return True
        return False

    def ne(self, a, b):
        a, b = unref(a), unref(b)
        for f in self.facts:
            if f[0] == "ne" and len(f) == 3 and ((f[1] == a and f[2] == b) or (f[1] == b and f[2] == a)):
                return True
        return self.lt(a, b) or self.lt(b, a)
