"""Guard facts from dominating switch edges and a small, sound entailment procedure (no solver)."""
from terms import mk_phi, subterms, fmt

ORDERING = {255: "Less", 0: "Equal", 1: "Greater", -1: "Less", 18446744073709551615: "Less"}
NEG = {"lt": "ge", "le": "gt", "gt": "le", "ge": "lt", "eq": "ne", "ne": "eq"}
BINREL = {"Lt": "lt", "Le": "le", "Gt": "gt", "Ge": "ge", "Eq": "eq", "Ne": "ne"}


def unref(t):
    while t[0] == "ref":
        t = t[1]
    return t


def norm_rel(op, a, b):
    """normalise to lt/le/eq/ne with operands possibly swapped"""
    if op == "gt":
        return ("lt", b, a)
    if op == "ge":
        return ("le", b, a)
    return (op, a, b)


def discr_variants_of(body, local):
    """variants map {value: name} from the statement `_local = discriminant(x)`."""
    for (bb, si, kind, rv) in body.defs().get(local, []):
        if kind == "assign" and rv["k"] == "discr":
            v = rv.get("variants")
            if v:
                return {int(k): n for k, n in v.items()}
    return None


def bool_facts(t, val):
    """facts implied by boolean term t having value val"""
    k = t[0]
    out = []
    if k == "bin" and t[1] in BINREL:
        op = BINREL[t[1]]
        if not val:
            op = NEG[op]
        out.append(norm_rel(op, unref(t[2]), unref(t[3])))
    elif k == "call" and t[1] in ("lt", "le", "gt", "ge", "eq", "ne"):
        op = t[1]
        if not val:
            op = NEG[op]
        out.append(norm_rel(op, unref(t[2][0]), unref(t[2][1])))
    elif k == "call" and t[1] == "Option::is_some":
        out.append(("is_some", unref(t[2][0]), val))
    elif k == "call" and t[1] == "Option::is_none":
        out.append(("is_some", unref(t[2][0]), not val))
    elif k == "un" and t[1] == "Not":
        out.extend(bool_facts(t[2], not val))
    elif k == "atomic" and t[1] == "load":
        out.append(("flag", unref(t[2]), val, t))
    else:
        out.append(("bool", t, val))
    return out


def switch_facts(ev, ctx, bb, target_vals, is_otherwise, listed_vals):
    """facts for taking an edge of the switch terminating block bb.
    target_vals: values leading to the taken target (empty for pure otherwise); listed_vals: all listed values."""
    body = ctx.body
    t = body.term(bb)
    discr = t["discr"]
    T = ev.operand(ctx, discr)
    out = []
    # enum discriminant
    if T[0] == "discr":
        X = unref(T[1])
        variants = None
        if discr["k"] in ("copy", "move") and not discr["place"]["p"]:
            variants = discr_variants_of(body, discr["place"]["l"])
        names_all = set(variants.values()) if variants else None

        def nm(v):
            if variants and v in variants:
                return variants[v]
            return None
        if is_otherwise:
            excluded = {nm(v) for v in listed_vals}
            if names_all and None not in excluded:
                possible = names_all - excluded
            else:
                possible = None
        else:
            possible = {nm(v) for v in target_vals}
            if None in possible:
                possible = None
        if possible is None:
            return out
        if X[0] == "call" and X[1] == "cmp":
            a, b = unref(X[2][0]), unref(X[2][1])
            p = frozenset(possible)
            m = {frozenset(["Less"]): "lt", frozenset(["Equal"]): "eq", frozenset(["Greater"]): "gt",
                 frozenset(["Less", "Equal"]): "le", frozenset(["Greater", "Equal"]): "ge",
                 frozenset(["Less", "Greater"]): "ne"}
            if p in m:
                out.append(norm_rel(m[p], a, b))
        else:
            if possible == {"Some"}:
                out.append(("is_some", X, True))
            elif possible == {"None"}:
                out.append(("is_some", X, False))
            else:
                out.append(("variant_in", X, frozenset(possible)))
        return out
    # bool
    dty = t.get("discr_ty", "")
    if dty == "bool":
        if is_otherwise:
            # listed are the excluded values (normally [0])
            if set(listed_vals) == {0}:
                out.extend(bool_facts(T, True))
            elif set(listed_vals) == {1}:
                out.extend(bool_facts(T, False))
        else:
            if set(target_vals) == {0}:
                out.extend(bool_facts(T, False))
            elif set(target_vals) == {1}:
                out.extend(bool_facts(T, True))
        return out
    # integers
    T = unref(T)
    if is_otherwise:
        for v in listed_vals:
            out.append(("ne", T, ("int", v)))
    elif len(set(target_vals)) == 1:
        out.append(("eq", T, ("int", list(target_vals)[0])))
    return out


def block_facts(ev, ctx, bb, unwind=False):
    """Facts that hold whenever block bb of ctx.body executes (from dominating switch/assert edges)."""
    body = ctx.body
    key = ("facts", bb, unwind)
    if key in ctx.memo:
        return ctx.memo[key]
    dom = body.dominators(unwind).get(bb, set())
    preds = body.preds(unwind)
    out = []
    for d in sorted(dom):
        t = body.term(d)
        if t["k"] == "switch":
            listed = [v for v, _ in t["targets"]]
            # group values by target
            by_target = {}
            for v, b in t["targets"]:
                by_target.setdefault(b, []).append(v)
            other = t["otherwise"]
            for s in set(list(by_target.keys()) + [other]):
                if s == d:
                    continue
                if not (s == bb or s in dom):
                    continue
                # the edge d->s must be the only way into s
                if any(p != d for p in preds[s]):
                    continue
                vals = by_target.get(s, [])
                is_other = (s == other)
                if is_other and vals:
                    # both listed values and otherwise lead here: no usable fact
                    continue
                out.extend(switch_facts(ev, ctx, d, vals, is_other, listed))
        elif t["k"] == "call" and d != bb:
            # a successful slice/Vec index implies index < len on everything the return edge dominates
            s = t.get("target")
            if s is not None and (s == bb or s in dom) and all(p == d for p in preds[s]):
                c = body.callee(d)
                if c is not None and not c.indirect and c.trait in ("std::ops::Index", "std::ops::IndexMut") \
                        and len(t["args"]) == 2:
                    base = ev.operand(ctx, t["args"][0])
                    idx = unref(ev.operand(ctx, t["args"][1]))
                    if not (idx[0] == "agg"):
                        out.append(("lt", idx, ("call", "len", (base,))))
        elif t["k"] == "assert":
            s = t["target"]
            if (s == bb or s in dom) and d != bb and all(p == d for p in preds[s]):
                c = ev.operand(ctx, t["cond"])
                if t["msg"].startswith("Overflow"):
                    # assert(!ovf(a op b)) : record as no-overflow fact
                    if c[0] == "ovf":
                        out.append(("no_ovf", c[1], c[2], c[3]))
                else:
                    out.extend(bool_facts(c, bool(t["expected"])))
    if not getattr(ev, "_inprogress", None):
        ctx.memo[key] = out  # (facts computed in the middle of a local's evaluation may contain cycle markers)
    return out


class Prover:
    """Entailment over lt/le/eq/ne facts on terms. Deliberately small and sound."""

    def __init__(self, facts, ev=None, ctx=None, extra_le=None, payload_facts=None, option_facts=None):
        self.option_facts = option_facts if option_facts is not None else (ev.option_facts if ev is not None else {})
        self.facts = list(facts)
        self.ev = ev
        self.ctx = ctx
        self.extra_le = extra_le or []  # struct invariants etc.: list of (a,b) with a<=b
        self.payload_facts = payload_facts or {}
        self._stack = set()

    def _opt(self, phi, x):
        """prover for reasoning about one option x of a phi: the facts of x's defining block hold in addition"""
        extra = self.option_facts.get((phi, x))
        if not extra:
            return self
        p = self.with_facts(extra)
        p._stack = self._stack
        return p

    def with_facts(self, more):
        import copy
        p = copy.copy(self)
        p.facts = self.facts + [f for f in more if f not in self.facts]
        p._stack = set()
        return p

    def _facts_for(self, a):
        for f in self.facts:
            yield f
        for f in self.payload_facts.get(a, []):
            yield f

    def eq(self, a, b):
        a, b = unref(a), unref(b)
        if a == b:
            return True
        for f in self.facts:
            if f[0] == "eq" and ((f[1] == a and f[2] == b) or (f[1] == b and f[2] == a)):
                return True
        if a[0] == "call" and a[1] == "conv":
            return self.eq(a[2][0], b) if b[0] != "call" or b[1] != "conv" else self.eq(a[2][0], b[2][0])
        return False

    def le(self, a, b, depth=0):
        a, b = unref(a), unref(b)
        key = ("le", a, b)
        if key in self._stack or depth > 6:
            return False
        self._stack.add(key)
        try:
            return self._le(a, b, depth)
        finally:
            self._stack.discard(key)

    def _le(self, a, b, depth):
        if self.eq(a, b):
            return True
        if a[0] == "int" and b[0] == "int":
            return a[1] <= b[1]
        if a[0] == "int" and a[1] == 0:
            return True  # unsigned
        if a[0] == "int" and a[1] == 1:
            for f in self.facts:
                if f[0] == "ne" and len(f) == 3 and ((f[1] == b and f[2] == ("int", 0)) or (f[2] == b and f[1] == ("int", 0))):
                    return True  # b != 0 (unsigned) => 1 <= b
        if b[0] == "int" and b[1] >= 18446744073709551615:
            return True
        for (x, y) in self.extra_le:
            if x == a and self.le(y, b, depth + 1):
                return True
        # structural on a
        if a[0] == "call":
            m = a[1]
            if m == "min" and (self.le(a[2][0], b, depth + 1) or self.le(a[2][1], b, depth + 1)):
                return True
            if m == "max" and self.le(a[2][0], b, depth + 1) and self.le(a[2][1], b, depth + 1):
                return True
            if m == "saturating_sub" and self.le(a[2][0], b, depth + 1):
                return True
            if m == "Option::unwrap_or":
                if self._payload_le(a[2][0], b, depth) and self.le(a[2][1], b, depth + 1):
                    return True
        if a[0] == "phi":
            if all(self._opt(a, x).le(x, b, depth + 1) for x in a[1]):
                return True
        if a[0] == "bin" and a[1] == "Sub":
            # x - y <= x (when it does not underflow, which is a separate obligation)
            if self.le(a[2], b, depth + 1):
                return True
        # structural on b
        if b[0] == "call":
            m = b[1]
            if m == "max" and (self.le(a, b[2][0], depth + 1) or self.le(a, b[2][1], depth + 1)):
                return True
            if m == "min" and self.le(a, b[2][0], depth + 1) and self.le(a, b[2][1], depth + 1):
                return True
            if m == "saturating_add" and (self.le(a, b[2][0], depth + 1) or self.le(a, b[2][1], depth + 1)):
                return True
        if b[0] == "phi":
            if all(self._opt(b, x).le(a, x, depth + 1) for x in b[1]):
                return True
        if b[0] == "bin" and b[1] == "Add":
            # a <= x + y if a <= x (no-overflow is a separate obligation)
            if self.le(a, b[2], depth + 1) or self.le(a, b[3], depth + 1):
                return True
        # facts (transitivity)
        for f in self._facts_for(a):
            if f[0] in ("lt", "le", "eq") and len(f) == 3:
                if f[1] == a and f[2] != a and self.le(f[2], b, depth + 1):
                    return True
                if f[0] == "eq" and f[2] == a and f[1] != a and self.le(f[1], b, depth + 1):
                    return True
        return False

    def _payload_le(self, o, b, depth):
        """payload(o) <= b for an Option-valued term o"""
        if self.ev is None:
            return False
        p = self.ev.payload(self.ctx, o)
        if p[0] == "payload":
            return False
        return self.le(p, b, depth + 1)

    def _payload_lt(self, o, b, depth):
        if self.ev is None:
            return False
        p = self.ev.payload(self.ctx, o)
        if p[0] == "payload":
            return False
        return self.lt(p, b, depth + 1)

    def lt(self, a, b, depth=0):
        a, b = unref(a), unref(b)
        key = ("lt", a, b)
        if key in self._stack or depth > 6:
            return False
        self._stack.add(key)
        try:
            return self._lt(a, b, depth)
        finally:
            self._stack.discard(key)

    def _lt(self, a, b, depth):
        if a[0] == "int" and b[0] == "int":
            return a[1] < b[1]
        for f in self._facts_for(a):
            if len(f) != 3:
                continue
            if f[0] == "lt" and f[1] == a and self.le(f[2], b, depth + 1):
                return True
            if f[0] in ("le", "eq") and f[1] == a and f[2] != a and self.lt(f[2], b, depth + 1):
                return True
            if f[0] == "eq" and f[2] == a and f[1] != a and self.lt(f[1], b, depth + 1):
                return True
        if a[0] == "call":
            m = a[1]
            if m == "min" and (self.lt(a[2][0], b, depth + 1) or self.lt(a[2][1], b, depth + 1)):
                return True
            if m == "max" and self.lt(a[2][0], b, depth + 1) and self.lt(a[2][1], b, depth + 1):
                return True
        if a[0] == "phi" and all(self.lt(x, b, depth + 1) for x in a[1]):
            return True
        if b[0] == "call" and b[1] == "max" and (self.lt(a, b[2][0], depth + 1) or self.lt(a, b[2][1], depth + 1)):
            return True
        if b[0] == "call" and b[1] == "min" and self.lt(a, b[2][0], depth + 1) and self.lt(a, b[2][1], depth + 1):
            return True
        # a < b from a <= c, c < b
        for f in self._facts_for(b):
            if len(f) == 3 and f[0] == "lt" and f[2] == b and self.le(a, f[1], depth + 1):
                return True
        # a != b and a <= b
        for f in self.facts:
            if f[0] == "ne" and len(f) == 3 and ((f[1] == a and f[2] == b) or (f[1] == b and f[2] == a)):
                if self.le(a, b, depth + 1):
                    return True
        return False

    def ne(self, a, b):
        a, b = unref(a), unref(b)
        for f in self.facts:
            if f[0] == "ne" and len(f) == 3 and ((f[1] == a and f[2] == b) or (f[1] == b and f[2] == a)):
                return True
        return self.lt(a, b) or self.lt(b, a)
