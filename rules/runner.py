"""Runs the rules of one property, applies known findings, writes evidence and violation files."""
import json
import os
import sys
import time
import traceback

from facts import Facts
from env import Env, Ob


def load_known(here):
    p = os.path.join(here, "known_findings.json")
    if not os.path.exists(p):
        return {}
    d = json.load(open(p))
    out = {}
    for f in d.get("findings", []):
        out[(f["property"], f["key"])] = f
    return out


def run(pid, tier, seed, facts_files, work, replay, t0, here, repo):
    import props
    if pid not in props.PROPS:
        print("INFRA-FAILURE: no rules registered for %s" % pid)
        return 2
    spec = props.PROPS[pid]
    envs = {}
    for cfg, f in facts_files.items():
        F = Facts(f)
        if F.raw.get("crate") != "orx_concurrent_iter":
            print("INFRA-FAILURE: facts file does not describe orx_concurrent_iter")
            return 2
        envs[cfg] = Env(F)
    obs = {}
    per_cfg = {}
    shared = {"work": work, "repo": repo, "here": here, "tier": tier, "envs": envs}
    stats = {}
    try:
        for cfg, env in envs.items():
            n = 0
            # role discovery problems fail closed for every property
            for prob in env.R.problems:
                o = Ob("ROLES", "ROLES|%s" % prob, "viol", "-", prob)
                obs.setdefault(o.key, o)
            for rule in spec["rules"]:
                if getattr(rule, "once", False) and cfg != ("on_on" if "on_on" in envs else sorted(envs)[0]):
                    continue
                for o in rule(env, shared):
                    n += 1
                    prev = obs.get(o.key)
                    if prev is None:
                        obs[o.key] = o
                        o.detail.setdefault("configs", []).append(cfg)
                    else:
                        prev.detail.setdefault("configs", []).append(cfg)
                        rank = {"ok": 0, "undecided": 1, "viol": 2}
                        if rank[o.status] > rank[prev.status]:
                            o.detail["configs"] = prev.detail["configs"]
                            o.detail["disagrees_across_configs"] = True
                            obs[o.key] = o
            per_cfg[cfg] = n
            stats[cfg] = {"bodies": len(env.F.non_test_bodies()),
                          "blocks": sum(len(b.blocks) for b in env.F.non_test_bodies())}
    except Exception:
        traceback.print_exc()
        print("INFRA-FAILURE: rule engine crashed (see stderr)")
        return 2

    all_obs = list(obs.values())
    # floors: every rule family must have produced at least its confirmed number of instances
    floors = {}
    fp = os.path.join(here, "rules", "floors.json")
    if os.path.exists(fp):
        floors = json.load(open(fp)).get(pid, {})
    if not floors:
        floors = spec.get("floors", {})
    counts = {}
    for o in all_obs:
        counts[o.rule] = counts.get(o.rule, 0) + 1
        fam = o.rule.split(".")[0]
        if fam != o.rule:
            counts[fam] = counts.get(fam, 0) + 1
    for rule, floor in floors.items():
        if counts.get(rule, 0) < floor:
            all_obs.append(Ob("FLOOR", "FLOOR|%s" % rule, "viol", "-",
                              "rule %s produced %d obligations, expected at least %d (anchor lost: a rule that matches "
                              "nothing would pass vacuously)" % (rule, counts.get(rule, 0), floor)))

    known = load_known(here)
    viols = [o for o in all_obs if o.status == "viol"]
    known_hits = []
    new_viols = []
    for o in viols:
        k = known.get((pid, o.key))
        if k is not None:
            known_hits.append((o, k))
        else:
            new_viols.append(o)

    if replay:
        try:
            want = json.load(open(replay)).get("key")
        except Exception as e:  # noqa
            print("INFRA-FAILURE: cannot read replay file %s: %s" % (replay, e))
            return 2
        hit = [o for o in all_obs if o.key == want]
        if not hit:
            print("replay: obligation %s no longer exists on this tree" % want)
            return 0
        o = hit[0]
        print("replay: %s -> %s\n  %s\n  %s" % (o.key, o.status, o.loc, o.msg))
        if o.status == "viol" and (pid, o.key) not in known:
            print("VIOLATION property=%s replay=%s" % (pid, replay))
            return 1
        return 0

    # development runs against another tree (ORX_REPO=<scratch worktree>) must not overwrite the evidence of /repo
    evroot = os.path.join(here, "evidence") if os.path.realpath(repo) == "/repo" else os.path.join(here, ".work", "evidence_alt")
    vdir = os.path.join(evroot, "violations")
    os.makedirs(vdir, exist_ok=True)
    for fn in os.listdir(vdir):
        if fn.startswith(pid + "-"):
            os.remove(os.path.join(vdir, fn))
    for o, k in known_hits:
        print("KNOWN-FINDING: property=%s %s [%s] at %s" % (pid, k.get("what", o.msg), o.key, o.loc))
    for n, o in enumerate(new_viols):
        p = os.path.join(vdir, "%s-%d.json" % (pid, n))
        json.dump({"property": pid, "key": o.key, "rule": o.rule, "loc": o.loc, "msg": o.msg, "detail": o.detail,
                   "tier": tier}, open(p, "w"), indent=1, default=str)
        print("%s: [%s] %s\n    key: %s" % (o.loc, o.rule, o.msg, o.key))
        print("VIOLATION property=%s replay=%s" % (pid, p))

    if os.environ.get("ORX_DUMP"):
        for o in sorted(all_obs, key=lambda o: o.key):
            print("  %-9s %s | %s | %s" % (o.status, o.key, o.loc, o.msg[:110]))
    ok = [o for o in all_obs if o.status == "ok"]
    und = [o for o in all_obs if o.status == "undecided"]
    samples = []
    seen_rules = set()
    for o in all_obs:
        if o.rule not in seen_rules or o.status != "ok":
            seen_rules.add(o.rule)
            samples.append({"rule": o.rule, "key": o.key, "status": o.status, "loc": o.loc, "what": o.msg})
        if len(samples) >= 40:
            break
    distinct_nt = len({o.key for o in all_obs if o.nontrivial})
    ev = {
        "property_id": pid,
        "tier": tier,
        "seed": seed,
        "level": "other",
        "coverage": {
            "explanation": spec["explanation"],
            "rule": "obligations are generated from the resolved program (MIR + type tables of /repo's working tree, "
                    "extracted on this run); one obligation per rule instance (site x role); non-trivial = needed "
                    "guard facts, inlining, dominance or trait-solver answers rather than structural equality",
            "obligations": len(all_obs),
            "discharged": len(ok),
            "undecided": len(und),
            "violated_new": len(new_viols),
            "known_findings": len(known_hits),
            "evaluations": max(1, sum(per_cfg.values())),
            "distinct_nontrivial": distinct_nt,
            "rules": sorted(counts.items()),
            "floors": floors,
            "configurations": sorted(envs.keys()),
            "analysed": stats,
            "roles": envs[sorted(envs)[0]].R.summary(),
            "samples": samples,
            "exhaustive": False,
            "checker_cmd": "./check %s --tier %s" % (pid, tier),
        },
        "assumptions": spec.get("assumptions", []) + [
            "nightly MIR at -Zmir-opt-level=0 is a faithful view of the program the stable toolchain builds",
            "std functions behave as documented (summary table in rules/terms.py)",
        ],
        "wall_s": round(time.time() - t0, 2),
        "violations": len(new_viols),
    }
    os.makedirs(evroot, exist_ok=True)
    json.dump(ev, open(os.path.join(evroot, "%s.json" % pid), "w"), indent=1, default=str)
    print("%s tier=%s: %d obligations, %d discharged, %d undecided, %d known findings, %d violations (%.1fs)" % (
        pid, tier, len(all_obs), len(ok), len(und), len(known_hits), len(new_viols), time.time() - t0))
    return 1 if new_viols else 0
