"""AMT.pub (publish == reservation), LIVE (progress structure), UNW (release on unwind) for the ticket hand-off;
LIVE.a (no waiting, no blocking) for known-size sources."""
from env import Ob
from guards import block_facts, unref
from terms import fmt, subterms, PURE, callee_model_key
from r_ticket import _ticket, receiver_kind, owner_of, all_callers
from r_m1 import _m1

BLOCKING = ("std::sync::Mutex", "std::sync::RwLock", "std::sync::Condvar", "std::thread::park", "std::thread::sleep",
            "std::thread::yield_now", "std::hint::spin_loop", "std::sync::mpsc", "std::sync::Once", "std::sync::Barrier",
            "std::sync::poison", "std::sync::LazyLock", "std::sync::OnceLock", "std::thread::JoinHandle")

# calls that cannot unwind (justified one by one)
NO_UNWIND_KEYS = (
    "std::cell::UnsafeCell::get",            # pointer arithmetic only
    "std::option::Option::is_some", "std::option::Option::is_none",
    "std::vec::Vec::len", "std::slice::len", "std::vec::Vec::new",   # (Vec::new allocates nothing)
    "std::mem::drop",                          # judged by what it drops: only used on the panic guard here (checked)
    "std::iter::IntoIterator::into_iter",      # identity / Vec -> IntoIter: moves only
    "std::cmp::Ord::cmp", "std::cmp::PartialOrd::lt", "std::cmp::PartialEq::eq",
    "std::ops::Deref::deref", "std::ops::DerefMut::deref_mut",   # on Vec / ManuallyDrop: field access
    "std::thread::panicking",
    "std::ops::Try::branch", "std::ops::FromResidual::from_residual",   # `?` on Option / Result: a match, no user code
    "std::cmp::Ordering::is_lt", "std::cmp::Ordering::is_le", "std::cmp::Ordering::is_gt", "std::cmp::Ordering::is_ge",
    "std::cmp::Ordering::is_eq", "std::cmp::Ordering::is_ne",
)


def rule_amt_pub(env, shared):
    """AMT.pub: a ticket holder advances the now-serving counter by exactly the amount it reserved (same term)."""
    T = _ticket(env)
    m = _m1(env)
    out = []
    if not T.ok:
        return [Ob("AMT.pub", "AMT.pub|anchor", "viol", "-", "ticket implementor not found")]
    for u in m.units:
        base = m.base_impl(u.world)
        if env.R.impl[base]["kind"] != "ticket" or u.world.get("inner"):
            continue  # (adaptors forward to the inner pull: rule FWD)
        rs = u.reserves()
        if len(rs) != 1:
            continue
        r = list(rs.keys())[0]
        k_amt = unref(r[3][0])
        pubs = []
        for e in u.events:
            if e.kind == "atomic" and e.info["op"] == "fetch_add":
                role, adt = env.R.classify(e.info["place"])
                if role == "serving":
                    pubs.append(e)
        key = "AMT.pub|%s" % u.label
        if not pubs:
            out.append(Ob("AMT.pub", key, "viol", u.body.file_line(),
                          "the %s pull of %s never advances the now-serving counter: later ticket holders wait forever" % (
                              u.kind, u.world["name"])))
            continue
        bad = [e for e in pubs if unref(e.args[1]) != k_amt]
        if bad:
            e = bad[0]
            out.append(Ob("AMT.pub", key, "viol", e.loc(),
                          "the %s pull of %s reserves %s tickets but advances the now-serving counter by %s: the next "
                          "ticket (begin + reservation) never comes up, or comes up while this holder is still iterating" % (
                              u.kind, u.world["name"], fmt(k_amt)[:80], fmt(unref(e.args[1]))[:80])))
        else:
            out.append(Ob("AMT.pub", key, "ok", pubs[0].loc(),
                          "now-serving counter advanced by the reservation itself (%s)" % fmt(k_amt)[:60], True))
    return out


def _held_starts(T, env, b, sa):
    """blocks where a held region begins inside body b (after admission + gate), or [0] if b runs held from entry"""
    ctx = env.ctx(b, sa, T.world)
    starts = []
    for bb in sorted(b.reachable(0)):
        if b.blocks[bb]["cleanup"]:
            continue
        if T.admission_fact(ctx, bb, own_only=b.is_closure) is not None:
            # first blocks carrying the fact
            if not any(T.admission_fact(ctx, p, own_only=b.is_closure) is not None for p in b.preds()[bb]):
                starts.append(bb)
    if not starts:
        for bb in sorted(b.reachable(0)):
            if b.blocks[bb]["cleanup"]:
                continue
            for f in block_facts(env.ev, ctx, bb):
                if f[0] == "is_some" and f[2] is True and T.admitting_call(ctx, f[1]) is not None:
                    if not any(any(g[0] == "is_some" and g[2] is True and g[1] == f[1] for g in block_facts(env.ev, ctx, p))
                               for p in b.preds()[bb]):
                        starts.append(bb)
    return starts


def _verdict_type(env, b):
    """b returns a bool or a field-less enum of the crate (a verdict about what it saw, not a reservation)"""
    rt = b.locals[0]["ty"]["s"].replace("core::", "std::")
    if rt == "bool":
        return True
    from facts import norm_std
    a = env.F.adts.get(norm_std(rt.split("<")[0]))
    return bool(a) and a.get("kind") == "Enum" and not any(v["fields"] for v in a["variants"])


def _probe_chain(env, T, e):
    """the load event e was inlined from a probing helper of the ticket implementor: a loop-free function returning a
    verdict (bool / field-less enum), reached through loop-free functions only — each execution of the call site in the
    analysed function reads the counter exactly once, so a loop around that call site is the wait loop"""
    frames = [fr[0] for fr in e.info["chain"][1:]] + [e.body]
    if any(bd.natural_loops() for bd in frames):
        return False
    top = e.info["chain"][0][0] if e.info["chain"] else e.body
    o = owner_of(env, e, top)
    return o.def_ != top.def_ and env.F.impl_self_adt(o) == T.adt and _verdict_type(env, o)


def _is_probe(env, T, b, sa, own_loads):
    """b reads the now-serving counter outside any loop, is private to the crate, and every call of it (in the ticket
    implementor's functions) sits in a loop of its caller or is itself judged as a waiting function: b reports, its callers
    wait. Only claimed when b returns a bool or a field-less enum (a verdict, not a reservation)."""
    if any(any(e.bb in lb for (_h, lb) in e.body.natural_loops()) for e in own_loads if e.body.def_ == b.def_):
        return False
    if b.natural_loops():
        return False
    if not _verdict_type(env, b):
        return False
    callers = all_callers(env, b.def_)
    return bool(callers) and all(any(bb in lb for (_h, lb) in cb.natural_loops()) for (cb, bb) in callers)


def rule_live(env, shared):
    """LIVE: (a) pulls of known-size sources contain no wait loop (a cycle whose continuation depends on an atomic load)
    and call nothing blocking; (b) every wait loop of the ticket protocol re-reads the now-serving counter and has exits
    for Equal, Less and the end flag; (c) from every held-region entry every normal path to a return passes a release
    event; (d) the result of the admitting helper is always continued (and_then / map), never dropped."""
    T = _ticket(env)
    m = _m1(env)
    out = []
    R, F, ev = env.R, env.F, env.ev
    # (a)
    seen = set()
    for u in m.units:
        base = m.base_impl(u.world)
        if R.impl[base]["kind"] != "known":
            continue
        bodies = {}
        for e in u.events:
            bodies[e.body.def_] = e.body
        for b in u.bodies:
            bodies[b.def_] = b
        for b in bodies.values():
            k = "LIVE.a|%s|%s" % (u.world["name"], env.fname(b))
            if k in seen:
                continue
            seen.add(k)
            loops = b.natural_loops()
            bad = None
            for (h, body_) in loops:
                for e in env.flat_events(b, F.impl_self_adt(b), u.world):
                    if e.info["top_bb"] in body_ and e.kind == "atomic" and e.info["op"] in ("load", "compare_exchange",
                                                                                          "compare_exchange_weak"):
                        if e.info["op"] == "load":
                            bad = e
            blocking = None
            for bi, t, c in b.calls():
                if any(c.key.startswith(x) for x in BLOCKING):
                    blocking = (bi, c.key)
            if bad is not None:
                out.append(Ob("LIVE.a", k, "viol", bad.loc(),
                              "a pull of the known-size source %s loops on an atomic load in %s: it waits for another thread, "
                              "which the lock-free claim forbids (a suspended thread would block everyone)" % (
                                  u.world["name"], env.fname(b))))
            elif blocking is not None:
                out.append(Ob("LIVE.a", k, "viol", b.file_line(b.term(blocking[0])["loc"]),
                              "a pull of the known-size source %s calls the blocking primitive %s" % (u.world["name"], blocking[1])))
            else:
                out.append(Ob("LIVE.a", k, "ok", b.file_line(), "no wait loop, no blocking call (%d loops without atomics)" % len(loops),
                              bool(loops)))
    if not T.ok:
        out.append(Ob("LIVE", "LIVE|anchor", "viol", "-", "ticket implementor not found"))
        return out
    # (b) wait loops of the ticket implementor
    for (b, sa) in T.universe:
        ctx = env.ctx(b, sa, T.world)
        evs = T.direct_events(b, sa)
        for (h, body_) in b.natural_loops():
            # loads of this function, and loads of a probing helper it calls from the loop (`loop { match self.turn_of(i) {..} }`):
            # the helper reads once per call and has no loop of its own around the read, so this loop is the wait loop
            loads = [e for e in evs if e.info["top_bb"] in body_ and e.kind == "atomic" and e.info["op"] == "load"
                     and (owner_of(env, e, b).def_ == b.def_ or
                          (T.role_of(e.info["place"])[0] == "serving" and _probe_chain(env, T, e)))]
            if not loads:
                continue
            k = "LIVE.b|%s|loop@bb-header" % env.fname(b)
            serving = [e for e in loads if T.role_of(e.info["place"])[0] == "serving"]
            # exits
            ex = {"eq": False, "lt": False, "done": False}
            for x in body_:
                for y in b.succ(x):
                    if y in body_:
                        continue
                    fs_y = list(block_facts(ev, ctx, y))
                    for f in list(fs_y):
                        if f[0] == "anyof":  # left on a verdict of a probing helper: any of the ways it produces that verdict
                            for alt in f[1]:
                                fs_y.extend(alt)
                    for f in fs_y:
                        if f[0] == "eq" and len(f) == 3 and any(z[0] == "atomic" or T.serving_load(z) is not None for z in (f[1], f[2])):
                            ex["eq"] = True
                        if f[0] == "lt" and len(f) == 3 and T.serving_load(f[2]) is not None:
                            ex["lt"] = True
                        if f[0] == "flag" and f[2] is True and T.role_of(f[1])[0] == "done":
                            ex["done"] = True
                        if f[0] == "le" and len(f) == 3 and T.serving_load(f[2]) is not None:
                            # `while ticket > now_serving { .. }`: left as soon as ticket <= now-serving (equal or passed)
                            ex["eq"] = ex["lt"] = True
            # exits under Equal may lie deeper (after the gate): look at facts of all blocks reachable from exits
            for bb in b.reachable(0):
                if bb in body_:
                    continue
                for f in block_facts(ev, ctx, bb):
                    if f[0] == "eq" and len(f) == 3 and any(z[0] == "atomic" or T.serving_load(z) is not None for z in (f[1], f[2])):
                        ex["eq"] = True
            if serving and all(ex.values()):
                out.append(Ob("LIVE.b", k, "ok", serving[0].loc(),
                              "wait loop re-reads the now-serving counter and leaves on Equal, Less and on the end flag", True))
            else:
                out.append(Ob("LIVE.b", k, "viol", loads[0].loc(),
                              "a wait loop in %s %s: a waiter can spin forever" % (
                                  env.fname(b), "does not re-read the now-serving counter" if not serving else
                                  "lacks an exit (%s)" % ", ".join(n for n, v in ex.items() if not v))))
    # (c) must-pass-through release
    for (b, sa) in T.universe:
        rk = receiver_kind(b, F)
        rel = T.must_release_blocks(b, sa)
        starts = _held_starts(T, env, b, sa)
        entry_held = False
        if not starts:
            # bodies that run held from their entry: continuation closures and functions whose callers are all held,
            # provided they touch the wrapped iterator or release
            touches = any(T.is_cell_get(e) or T.is_inner_next(e) for e in T.direct_events(b, sa))
            if touches and (b.is_closure or True):
                h = T.held(b, sa, 0)
                # a continuation closure owns the duty to release; an ordinary helper that merely runs inside its callers'
                # held regions returns to a caller that still holds the ticket: the caller is judged (with this helper
                # counting as a release only if it releases on every path)
                if h[0] and rel and b.is_closure:
                    starts = [0]
                    entry_held = True
        if not starts:
            continue
        k = "LIVE.c|%s" % env.fname(b)
        bad = False
        for s in starts:
            # gate: paths that leave on the end flag do not hold the ticket
            ctx = env.ctx(b, sa, T.world)
            exits = set(b.exits())
            # exclude exits that are under "flag true" (gated out) or hand the ticket to the caller (Some(ticket))
            avoid = set(rel)
            # a definition of the return value that hands the region to the caller (Some(ticket) / true, see
            # Ticket.handover_sites), and blocks reached only when the end flag is set, end the duty of this function
            handover = set()
            hs = T.handover_sites(b, sa) if not b.is_closure else {}
            for bb in b.reachable(s):
                if bb in hs and hs[bb][0]:
                    handover.add(bb)
                for f in block_facts(ev, ctx, bb):
                    if f[0] == "flag" and f[2] is True and T.role_of(f[1])[0] == "done":
                        handover.add(bb)
            if s in avoid or s in handover:
                continue
            if b.paths_avoiding(s, exits, avoid | handover):
                bad = True
        if bad:
            out.append(Ob("LIVE.c", k, "viol", b.file_line(),
                          "%s can return while holding the ticket without advancing the now-serving counter or setting the end "
                          "flag: every later ticket holder waits forever" % env.fname(b)))
        else:
            out.append(Ob("LIVE.c", k, "ok", b.file_line(), "every normal path from the admission to a return releases the ticket",
                          True))
    # (e) a reserved ticket is never abandoned: the waiting functions return None only when the ticket has been passed
    #     (Less), the end flag is set, or after they were admitted (and released)
    for (b, sa) in T.universe:
        if F.impl_self_adt(b) != T.adt or b.is_closure:
            continue
        ctx = env.ctx(b, sa, T.world)
        # only functions that wait: they contain a load of the now-serving counter of their own
        own_loads = [e for e in T.direct_events(b, sa) if e.kind == "atomic" and e.info["op"] == "load"
                     and T.role_of(e.info["place"])[0] == "serving" and owner_of(env, e, b).def_ == b.def_]
        # .. or that wait by calling a probing helper from a loop (the helper reads the counter once and reports what it
        # saw; it gives nothing up by returning — the function that loops around it is the one that waits)
        probe_loads = [e for e in T.direct_events(b, sa) if e.kind == "atomic" and e.info["op"] == "load"
                       and T.role_of(e.info["place"])[0] == "serving" and owner_of(env, e, b).def_ != b.def_
                       and _probe_chain(env, T, e) and any(e.info["top_bb"] in lb for (_h, lb) in b.natural_loops())]
        if own_loads and _is_probe(env, T, b, sa, own_loads):
            continue
        if not own_loads and not probe_loads:
            continue
        k = "LIVE.e|%s" % env.fname(b)
        bad = None

        def _fine(fs):
            for f in fs:
                if f[0] == "lt" and len(f) == 3 and T.serving_load(f[2]) is not None:
                    return True
                if f[0] == "flag" and f[2] is True and T.role_of(f[1])[0] == "done":
                    return True
                if T.is_admission(f):
                    return True  # admitted: LIVE.c requires the release or a sound hand-over
                if f[0] == "anyof" and f[1] and all(_fine(alt) for alt in f[1]):
                    return True  # (whichever way the probed value was produced)
            return False
        for bi, cases in sorted(T.ret_sites(b, sa).items()):
            for (K, fs, _v) in cases:
                if not _fine(fs):
                    bad = b.file_line(b.term(bi)["loc"])
        if bad:
            out.append(Ob("LIVE.e", k, "viol", bad,
                          "%s gives up a reserved ticket (returns) although the ticket was neither passed, nor the end "
                          "flag set, nor the caller admitted: the now-serving counter can never get past this ticket and every "
                          "holder of a later ticket spins forever" % env.fname(b)))
        else:
            out.append(Ob("LIVE.e", k, "ok", b.file_line(), "None only when the ticket was passed, the end flag is set, or after "
                          "admission", True))
    # (d) results of admitting calls are continued
    for (b, sa) in T.universe:
        ctx = env.ctx(b, sa, T.world)
        for bi, t, c in b.calls():
            if b.blocks[bi]["cleanup"]:
                continue
            d = F.resolve_callee(c, sa, env._bind(b, T.world))
            if d is None:
                continue
            cb = F.bodies[d]
            if F.impl_self_adt(cb) != T.adt or cb.name != "progress_and_get_begin_idx":
                # found by behaviour: callee returns Some(ticket) under admission
                pass
            dl = t["dest"]["l"] if not t["dest"]["p"] else None
            rt = ev.operand(ctx, {"k": "copy", "place": t["dest"]})
            admits = T.admitting_call(ctx, rt) is not None
            if not admits and dl is not None and ev.callee_ctx(ctx, bi) is not None:
                # the callee hands the ticket to its caller through its return value
                admits = any(okk and hands for (okk, _g, _w, hands) in T.handover_sites(cb, F.impl_self_adt(cb) or sa).values())
            if not admits:
                continue
            k = "LIVE.d|%s" % env.fname(b)
            used_ok = False
            if dl is not None:
                for bj, t2, c2 in b.calls():
                    mk = PURE.get(callee_model_key(c2))
                    if mk in ("Option::and_then", "Option::map", "Try::branch", "bool::then_some", "bool::then") and t2["args"] \
                            and t2["args"][0]["k"] in ("move", "copy") and t2["args"][0]["place"]["l"] == dl:
                        used_ok = True
            # or matched on (its discriminant is switched on) with the Some arm continuing
            if dl is not None and not used_ok:
                for bj, blk in enumerate(b.blocks):
                    for st in blk["stmts"]:
                        if st["k"] == "assign" and st["rv"]["k"] == "discr" and st["rv"]["place"]["l"] == dl:
                            used_ok = True
            # or branched on (a boolean result, possibly negated / copied first)
            if dl is not None and not used_ok:
                aliases = {dl}
                for _ in range(3):
                    for bj, blk in enumerate(b.blocks):
                        for st in blk["stmts"]:
                            if st["k"] == "assign" and not st["place"]["p"]:
                                rv = st["rv"]
                                src = rv.get("op") if rv["k"] == "use" else (rv.get("a") if rv["k"] == "unop" else None)
                                if isinstance(src, dict) and src.get("k") in ("copy", "move") and not src["place"]["p"] \
                                        and src["place"]["l"] in aliases:
                                    aliases.add(st["place"]["l"])
                for bj, blk in enumerate(b.blocks):
                    tt = blk["term"]
                    if tt["k"] == "switch" and tt["discr"]["k"] in ("copy", "move") and not tt["discr"]["place"]["p"] \
                            and tt["discr"]["place"]["l"] in aliases:
                        used_ok = True
            # or compared with a variant (`if self.wait_for_turn(i) == Turn::Over { return None }`): branched on through ==
            if dl is not None and not used_ok:
                from guards import _referent_local
                for bj, t2, c2 in b.calls():
                    if not c2.indirect and c2.trait == "std::cmp::PartialEq" and c2.name in ("eq", "ne") \
                            and any(_referent_local(b, a) == dl for a in t2["args"]):
                        used_ok = True
            # or returned as is (forwarding adaptors)
            if dl == 0:
                used_ok = True
            if not used_ok:
                d0 = [x for x in b.defs().get(0, []) if x[2] == "call" and x[0] == bi]
                used_ok = bool(d0)
            out.append(Ob("LIVE.d", k, "ok" if used_ok else "viol", b.file_line(t["loc"]),
                          "the admitted ticket is continued by and_then/map (or returned to the caller)" if used_ok else
                          "%s obtains a ticket from the admitting helper but does not continue with it: the ticket is never "
                          "released" % env.fname(b), True))
    return out


def _guard_types(env):
    """ADTs whose Drop::drop releases the hand-off (stores the end flag / advances now-serving)"""
    out = {}
    F = env.F
    for path, a in F.adts.items():
        d = a.get("drop_fn")
        if not d or d not in F.bodies:
            continue
        b = F.bodies[d]
        for e in env.flat_events(b, F.impl_self_adt(b), None):
            if e.kind == "atomic" and e.info["op"] in ("store", "fetch_add") and e.info["akind"] in ("bool", "usize"):
                if e.info["op"] == "store" and e.info["akind"] == "bool":
                    out[path] = b
    return out


def _no_unwind(env, b, bb, T, trail=()):
    """can the call terminating block bb of b not unwind?"""
    c = b.callee(bb)
    if c is None:
        return False
    if c.indirect:
        return False
    from terms import is_atomic
    if is_atomic(c):
        return True
    if c.key in NO_UNWIND_KEYS:
        return True
    if c.key == "std::bool::then_some" and [(g.get("s") if isinstance(g, dict) else str(g)) for g in c.gargs] in (["usize"], ["bool"], ["u64"], ["u32"]):
        return True  # selection between Some(v) and None; dropping an unused integer cannot unwind
    # crate functions whose bodies contain only such calls and no drops of user values / asserts
    d = env.F.resolve_callee(c, env.F.impl_self_adt(b), env._bind(b, T.world) if T.ok else None)
    if d and d not in trail and d in env.F.bodies:
        cb = env.F.bodies[d]
        for bi, blk in enumerate(cb.blocks):
            if blk["cleanup"]:
                continue
            t = blk["term"]
            if t["k"] == "call":
                if not _no_unwind(env, cb, bi, T, trail + (d,)):
                    return False
            elif t["k"] == "assert":
                if t["msg"] not in ("MisalignedPointer", "NullPointer"):
                    return False
            elif t["k"] == "drop":
                return False
        return True
    return False


def _guard_locals(b, guards):
    return [i for i, l in enumerate(b.locals) if (l["ty"].get("adt") or "") in guards or
            any(g.split("::")[-1] in l["ty"]["s"] and g in l["ty"]["s"] for g in guards)]


def _unwind_guarded(b, bb, glocals):
    """(a guard is dropped on the unwind path of the terminator of bb, a guard is alive at bb)"""
    u = b.term(bb).get("unwind")
    if u in ("continue", None, "unreachable", "terminate"):
        return False, False
    # follow the cleanup chain: is a guard dropped on it?
    seen = set()
    st = [u]
    drops_guard = False
    while st:
        x = st.pop()
        if x in seen:
            continue
        seen.add(x)
        tx = b.term(x)
        if tx["k"] == "drop" and not tx["place"]["p"] and tx["place"]["l"] in glocals:
            drops_guard = True
        st.extend(b.succ(x, unwind=True))
    # is the guard alive at bb?  (created on a block dominating bb, not yet moved away)
    alive = False
    for g in glocals:
        for (db, si, kd, pl) in b.defs().get(g, []):
            # (the guard is obtained from a constructor function, or built in place: `let _guard = CompleteOnPanic(&flag)`)
            if (kd == "call" and b.dominates(db, bb) and db != bb) or \
                    (kd == "assign" and pl.get("k") == "aggregate" and b.dominates(db, bb)):
                # moved-away blocks: blocks using `move _g` as an operand
                moved = set()
                for bi2, blk2 in enumerate(b.blocks):
                    if blk2["cleanup"]:
                        continue
                    ops = []
                    for s2 in blk2["stmts"]:
                        if s2["k"] == "assign" and s2["rv"]["k"] == "use":
                            ops.append(s2["rv"]["op"])
                    if blk2["term"]["k"] == "call":
                        ops.extend(blk2["term"]["args"])
                    for o in ops:
                        if o["k"] == "move" and not o["place"]["p"] and o["place"]["l"] == g:
                            moved.add(bi2)
                after_move = any(mv != bb and bb in b.reachable(mv) and mv in b.reachable(db) for mv in moved)
                if not after_move:
                    alive = True
    return drops_guard, alive


def _callers_guard(env, T, cb, guards, depth=0):
    """every call of the helper cb (a function that runs inside its callers' held regions) is made with a panic guard of
    the caller alive, whose drop lies on the unwind path of the call: whatever unwinds out of the helper sets the end flag"""
    callers = [(pb, pbb) for (pb, pbb) in all_callers(env, cb.def_) if pb.def_ != cb.def_]
    if not callers or depth > 3:
        return False
    for (pb, pbb) in callers:
        dg, al = _unwind_guarded(pb, pbb, _guard_locals(pb, guards))
        if dg and al:
            continue
        if not pb.is_closure and _callers_guard(env, T, pb, guards, depth + 1):
            continue
        return False
    return True


def rule_unw(env, shared):
    """UNW: every terminator that can unwind while the ticket is held has a cleanup path that releases the hand-off
    (drops a guard whose Drop sets the end flag) before resuming."""
    T = _ticket(env)
    out = []
    if not T.ok:
        return [Ob("UNW", "UNW|anchor", "viol", "-", "ticket implementor not found")]
    F = env.F
    guards = _guard_types(env)
    n_sites = 0
    for (b, sa) in T.universe:
        rk = receiver_kind(b, F)
        if rk in ("value", "mut") and F.impl_self_adt(b) == T.adt:
            continue
        rel = T.must_release_blocks(b, sa)
        # guard locals of this body
        glocals = [i for i, l in enumerate(b.locals) if (l["ty"].get("adt") or "") in guards or
                   any(g.split("::")[-1] in l["ty"]["s"] and g in l["ty"]["s"] for g in guards)]
        for bb in sorted(b.reachable(0)):
            blk = b.blocks[bb]
            if blk["cleanup"]:
                continue
            t = blk["term"]
            if t["k"] not in ("call", "drop", "assert"):
                continue
            u = t.get("unwind")
            if u in ("unreachable", "terminate"):
                continue
            h = T.held(b, sa, bb)
            if not h[0]:
                continue
            if h[1].startswith("closure created inside a held region"):
                # a helper closure run by a call of its parent (iterator adaptors): its unwinding surfaces at that call,
                # which is judged in the parent
                continue
            # the release call itself and everything after it is not held (T.held handles "after")
            if bb in rel:
                continue
            if t["k"] == "call" and _no_unwind(env, b, bb, T):
                continue
            if t["k"] == "call":
                # a crate-local helper that runs inside its callers' held regions is judged as a body of its own: every
                # unwinding site inside it needs a guard *there* (which then runs before the unwinding reaches this frame)
                c0 = b.callee(bb)
                if c0 is not None and not c0.indirect:
                    d0 = F.resolve_callee(c0, sa, env._bind(b, T.world))
                    if d0 and d0 in F.bodies:
                        cb0 = F.bodies[d0]
                        csa0 = F.impl_self_adt(cb0) or sa
                        if (cb0.def_, csa0) in {(x.def_, y) for (x, y) in T.universe} and not cb0.is_closure \
                                and receiver_kind(cb0, F) not in ("value",) and T.held(cb0, csa0, 0)[0]:
                            k0 = "UNW|%s|call %s|judged-in-callee" % (env.fname(b), c0.key)
                            if not any(o.key == k0 for o in out):
                                out.append(Ob("UNW", k0, "ok", b.file_line(t["loc"]),
                                              "unwinding can only start inside the helper, which runs held and is judged there"))
                            continue
            if t["k"] == "assert" and t["msg"] in ("MisalignedPointer", "NullPointer"):
                continue
            if t["k"] == "drop":
                # dropping a value without drop glue that can panic? be conservative: user types can panic; the guard and
                # plain integers cannot
                ty = t["ty"]["s"]
                if any(g in ty for g in guards):
                    continue
            n_sites += 1
            what = t["k"]
            if t["k"] == "call":
                c = b.callee(bb)
                what = "call " + (c.key if c and not c.indirect else "<indirect>")
            elif t["k"] == "drop":
                what = "drop of " + t["ty"]["s"][:60]
            elif t["k"] == "assert":
                what = "assert " + t["msg"]
            k = "UNW|%s|%s" % (env.fname(b), what)
            loc = b.file_line(t["loc"])
            if any(o.key == k for o in out):
                continue
            if h[1].startswith("all ") and not b.is_closure and not any(_unwind_guarded(b, bb, glocals)) \
                    and _callers_guard(env, T, b, guards):
                out.append(Ob("UNW", k, "ok", loc, "unwinding leaves this helper into a caller whose panic guard is alive at the "
                              "call and dropped on its unwind path (every caller)", True))
                continue
            if u == "continue" or u is None:
                out.append(Ob("UNW", k, "viol", loc,
                              "`%s` can unwind while the ticket is held and nothing runs on the unwind path: the now-serving "
                              "counter is never advanced and the end flag never set — every other puller spins forever" % what))
                continue
            drops_guard, alive = _unwind_guarded(b, bb, glocals)
            if drops_guard and alive:
                out.append(Ob("UNW", k, "ok", loc, "unwinding drops the panic guard, which sets the end flag", True))
            else:
                out.append(Ob("UNW", k, "viol", loc,
                              "`%s` can unwind while the ticket is held, and the unwind path does not release the hand-off "
                              "(guard dropped on the path: %s, guard alive here: %s): every other puller spins forever" % (
                                  what, drops_guard, alive)))
    if n_sites == 0:
        out.append(Ob("UNW", "UNW|no-sites", "viol", "-", "no unwinding terminator found inside a held region (anchor lost)"))
    return out
