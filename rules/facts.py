"""Loading and indexing of orxfacts output; CFG utilities.

Everything here works on the resolved program (MIR + type tables) dumped by the rustc_private driver.
"""
import json
import re
from functools import lru_cache

_GEN = re.compile(r"::<[^<>]*>")


def strip_generics(path):
    """`std::vec::Vec::<T>::len` -> `std::vec::Vec::len`; keeps `<X as Trait>::m` heads intact."""
    prev = None
    s = path
    while prev != s:
        prev = s
        s = _GEN.sub("", s)
    return s


def norm_std(path):
    """core::/alloc:: and std:: are the same items for our purposes."""
    for a in ("core::", "alloc::"):
        if path.startswith(a):
            return "std::" + path[len(a):]
    return path.replace("<core::", "<std::").replace("<alloc::", "<std::").replace(" core::", " std::").replace(" alloc::", " std::")


def adt_of(ty):
    """ADT path of a type json (peeling references), or None."""
    while ty is not None:
        k = ty.get("k")
        if k == "adt":
            return norm_std(ty["adt"])
        if k in ("ref", "ptr"):
            ty = ty.get("inner")
            continue
        return None
    return None


def peel_ref(ty):
    while ty is not None and ty.get("k") in ("ref", "ptr"):
        ty = ty.get("inner")
    return ty


# method spellings of std functions that the rules know under their free-function name
KEY_ALIAS = {
    "std::ptr::mut_ptr::drop_in_place": "std::ptr::drop_in_place",
}


class Callee:
    """Normalised description of the function operand of a call terminator."""

    __slots__ = ("raw", "path", "key", "name", "local", "def_", "trait", "self_ty", "self_adt", "self_param",
                 "resolved_def", "resolved_path", "unsafe", "full", "gargs", "impl_self_adt", "indirect",
                 "resolved_kind")

    def __init__(self, func):
        self.raw = func
        self.indirect = "fn" not in func
        f = func.get("fn", {})
        self.path = norm_std(f.get("path", "?"))
        self.full = norm_std(f.get("full", self.path))
        self.name = f.get("name")
        self.local = f.get("local", False)
        self.def_ = f.get("def") if self.local else None
        self.trait = norm_std(f["trait"]) if "trait" in f else None
        self.gargs = f.get("gargs", [])
        st = f.get("self_ty")
        self.self_ty = st
        self.self_adt = adt_of(st) if st else None
        self.self_param = None
        if st:
            p = peel_ref(st)
            if p and p.get("k") == "param":
                self.self_param = p["name"]
        self.impl_self_adt = adt_of(f["impl_self_ty"]) if "impl_self_ty" in f else None
        if self.impl_self_adt is None and "impl_self_ty" in f:
            self.impl_self_adt = f["impl_self_ty"]["s"]
        r = f.get("resolved")
        self.resolved_def = r["def"] if r and r.get("local") else None
        self.resolved_path = norm_std(r["path"]) if r else None
        self.resolved_kind = r.get("kind") if r else None
        self.unsafe = f.get("unsafe", False)
        if self.trait:
            self.key = "%s::%s" % (self.trait, self.name)
        else:
            self.key = strip_generics(self.path)
        self.key = KEY_ALIAS.get(self.key, self.key)

    def self_key(self):
        """binding key of the Self type of a trait call: type parameter name, or `P::Assoc` for `<P as Tr>::Assoc`"""
        if self.self_param:
            return self.self_param
        st = self.self_ty
        if st:
            p = peel_ref(st)
            if p and p.get("k") == "alias":
                s = p["s"]
                if s.startswith("<") and " as " in s and ">::" in s:
                    head = s[1:s.index(" as ")]
                    tail = s.rsplit(">::", 1)[1]
                    return "%s::%s" % (head, tail)
        return None

    def __repr__(self):
        return "Callee(%s)" % self.key


class Body:
    def __init__(self, raw, facts):
        self.raw = raw
        self.facts = facts
        self.def_ = raw["def"]
        self.path = raw["path"]
        self.name = raw.get("name")
        self.kind = raw["kind"]
        self.blocks = raw["blocks"]
        self.locals = raw["locals"]
        self.arg_count = raw["arg_count"]
        self.root = raw.get("root")
        self.parent = raw.get("parent")
        self.loc = raw["loc"]
        self.info = None  # fn table entry
        self._succ = {}
        self._dom = {}
        self._defs = None
        self._callees = {}
        self.debug_names = {}
        for d in raw.get("debug", []):
            p = d.get("place")
            if p and not p["p"]:
                self.debug_names.setdefault(p["l"], d["name"])

    # ---- identity helpers
    @property
    def is_closure(self):
        return self.kind == "Closure"

    def file_line(self, loc=None):
        loc = loc or self.loc
        return "%s:%d" % (loc["file"], loc["line"])

    def short(self):
        return self.path

    # ---- CFG
    def term(self, bb):
        return self.blocks[bb]["term"]

    def callee(self, bb):
        t = self.term(bb)
        if t["k"] != "call":
            return None
        c = self._callees.get(bb)
        if c is None:
            c = Callee(t["func"])
            self._callees[bb] = c
        return c

    def succ(self, bb, unwind=False):
        key = (bb, unwind)
        r = self._succ.get(key)
        if r is not None:
            return r
        t = self.term(bb)
        k = t["k"]
        out = []
        if k == "goto":
            out.append(t["target"])
        elif k == "switch":
            for _, b in t["targets"]:
                if b not in out:
                    out.append(b)
            if t["otherwise"] not in out:
                out.append(t["otherwise"])
        elif k in ("drop", "assert"):
            out.append(t["target"])
        elif k == "call":
            if t["target"] is not None:
                out.append(t["target"])
        if unwind and k in ("drop", "assert", "call"):
            u = t.get("unwind")
            if isinstance(u, int) and u not in out:
                out.append(u)
        self._succ[key] = out
        return out

    def preds(self, unwind=False):
        key = ("preds", unwind)
        r = self._succ.get(key)
        if r is None:
            r = {i: [] for i in range(len(self.blocks))}
            for i in range(len(self.blocks)):
                for s in self.succ(i, unwind):
                    r[s].append(i)
            self._succ[key] = r
        return r

    def reachable(self, start=0, unwind=False, stop=None):
        """Blocks reachable from `start`; traversal does not continue *through* blocks in `stop`."""
        seen = set()
        st = [start]
        while st:
            b = st.pop()
            if b in seen:
                continue
            seen.add(b)
            if stop and b in stop and b != start:
                continue
            st.extend(self.succ(b, unwind))
        return seen

    def dominators(self, unwind=False):
        """dom[b] = set of blocks dominating b (reachable blocks only)."""
        r = self._dom.get(unwind)
        if r is not None:
            return r
        reach = self.reachable(0, unwind)
        order = sorted(reach)
        preds = self.preds(unwind)
        dom = {b: set(order) for b in order}
        dom[0] = {0}
        changed = True
        while changed:
            changed = False
            for b in order:
                if b == 0:
                    continue
                ps = [p for p in preds[b] if p in reach]
                new = None
                for p in ps:
                    new = set(dom[p]) if new is None else (new & dom[p])
                new = (new or set()) | {b}
                if new != dom[b]:
                    dom[b] = new
                    changed = True
        self._dom[unwind] = dom
        return dom

    def dominates(self, a, b, unwind=False):
        d = self.dominators(unwind)
        return b in d and a in d[b]

    def back_edges(self, unwind=False):
        dom = self.dominators(unwind)
        out = []
        for b in dom:
            for s in self.succ(b, unwind):
                if s in dom.get(b, ()):  # s dominates b
                    out.append((b, s))
        return out

    def natural_loops(self, unwind=False):
        """list of (header, body set) for every back edge (loops with the same header are merged)"""
        preds = self.preds(unwind)
        loops = {}
        for (t, h) in self.back_edges(unwind):
            body = {h}
            st = [t]
            while st:
                x = st.pop()
                if x in body:
                    continue
                body.add(x)
                st.extend(preds[x])
            loops.setdefault(h, set()).update(body)
        return sorted(loops.items(), key=lambda kv: len(kv[1]))

    def sccs(self, unwind=False):
        """Tarjan; returns list of SCCs (each a set) that contain a cycle."""
        index = {}
        low = {}
        onst = set()
        st = []
        out = []
        counter = [0]
        import sys
        sys.setrecursionlimit(10000)

        def visit(v):
            index[v] = low[v] = counter[0]
            counter[0] += 1
            st.append(v)
            onst.add(v)
            for w in self.succ(v, unwind):
                if w not in index:
                    visit(w)
                    low[v] = min(low[v], low[w])
                elif w in onst:
                    low[v] = min(low[v], index[w])
            if low[v] == index[v]:
                comp = set()
                while True:
                    w = st.pop()
                    onst.discard(w)
                    comp.add(w)
                    if w == v:
                        break
                if len(comp) > 1 or v in self.succ(v, unwind):
                    out.append(comp)

        for b in sorted(self.reachable(0, unwind)):
            if b not in index:
                visit(b)
        return out

    def exits(self):
        """Blocks whose terminator is `return`."""
        return [i for i, b in enumerate(self.blocks) if b["term"]["k"] == "return"]

    def paths_avoiding(self, src, dst_set, avoid, unwind=False):
        """Is some block of dst_set reachable from src without passing through a block in `avoid`?"""
        seen = set()
        st = [src]
        while st:
            b = st.pop()
            if b in seen:
                continue
            seen.add(b)
            if b in dst_set and b != src:
                return True
            if b in avoid and b != src:
                continue
            st.extend(self.succ(b, unwind))
        return False

    # ---- definitions of locals
    def defs(self):
        """local -> list of (bb, idx|'term', kind, payload); kind in assign/call/partial."""
        if self._defs is not None:
            return self._defs
        d = {}
        for bi, bb in enumerate(self.blocks):
            for si, s in enumerate(bb["stmts"]):
                if s["k"] == "assign":
                    p = s["place"]
                    if not p["p"]:
                        d.setdefault(p["l"], []).append((bi, si, "assign", s["rv"]))
                    elif p["p"][0]["k"] != "deref":
                        # (a write through a pointer local changes the pointee, not the local)
                        d.setdefault(p["l"], []).append((bi, si, "partial", s))
                elif s["k"] == "setdiscr":
                    d.setdefault(s["place"]["l"], []).append((bi, si, "partial", s))
            t = bb["term"]
            if t["k"] == "call":
                p = t["dest"]
                if not p["p"]:
                    d.setdefault(p["l"], []).append((bi, "term", "call", t))
                elif p["p"][0]["k"] != "deref":
                    d.setdefault(p["l"], []).append((bi, "term", "partial", t))
        # `v.push(x)` on a local vector: a further definition of the vector ("mutcall"), so that what a fill loop stores
        # is part of the vector's value
        for bi, bb in enumerate(self.blocks):
            t = bb["term"]
            if t["k"] != "call" or bb["cleanup"] or len(t["args"]) != 2:
                continue
            c = self.callee(bi)
            if c is None or c.indirect or c.key != "std::vec::Vec::push":
                continue
            a0 = t["args"][0]
            if a0["k"] not in ("move", "copy") or a0["place"]["p"]:
                continue
            rdefs = d.get(a0["place"]["l"], [])
            if len(rdefs) == 1 and rdefs[0][2] == "assign" and rdefs[0][3]["k"] == "ref" and not rdefs[0][3]["place"]["p"]:
                d.setdefault(rdefs[0][3]["place"]["l"], []).append((bi, "term", "mutcall", t))
        self._defs = d
        return d

    def calls(self):
        """Iterate (bb, term, Callee) over call terminators."""
        for i, b in enumerate(self.blocks):
            if b["term"]["k"] == "call":
                yield i, b["term"], self.callee(i)


class Facts:
    def __init__(self, path_or_dict):
        if isinstance(path_or_dict, dict):
            d = path_or_dict
        else:
            with open(path_or_dict) as f:
                d = json.load(f)
        self.raw = d
        self.opts = d["opts"]
        self.bodies = {}
        for b in d["bodies"]:
            self.bodies[b["def"]] = Body(b, self)
        self.fns = {f["def"]: f for f in d["fns"]}
        for k, b in self.bodies.items():
            b.info = self.fns.get(k)
        self.adts = {norm_std(a["path"]): a for a in d["adts"]}
        self.traits = {norm_std(t["path"]): t for t in d["traits"]}
        self.impls = d["impls"]
        # (trait path, self adt path or type string) -> impl
        self.trait_impls = {}
        self.impls_of_trait = {}
        for i in self.impls:
            if "trait" in i:
                t = norm_std(i["trait"])
                sa = adt_of(i["self_ty"]) or i["self_ty"]["s"]
                self.trait_impls[(t, sa)] = i
                self.impls_of_trait.setdefault(t, []).append(i)
        # closures by parent
        self.closures_of = {}
        for b in self.bodies.values():
            if b.is_closure and b.parent:
                self.closures_of.setdefault(b.parent, []).append(b)

    # ---- lookup helpers
    def body_by_suffix(self, suffix):
        r = [b for b in self.bodies.values() if b.path.endswith(suffix)]
        return r

    def is_test_item(self, body):
        p = body.path
        return "::tests::" in p or p.startswith("tests::")

    def non_test_bodies(self):
        return [b for b in self.bodies.values() if not self.is_test_item(b) and b.kind != "Promoted"]

    def impl_self_adt(self, body):
        """ADT path of the impl block the body (or its closure root) belongs to."""
        root = self.bodies.get(body.root, body) if body.is_closure else body
        info = self.fns.get(root.def_)
        if info and "impl_self_ty" in info:
            return adt_of(info["impl_self_ty"]) or info["impl_self_ty"]["s"]
        return None

    def fn_trait(self, body):
        root = self.bodies.get(body.root, body) if body.is_closure else body
        info = self.fns.get(root.def_)
        if info and "trait" in info:
            return norm_std(info["trait"])
        return None

    def method_impl(self, trait, name, self_adt):
        """def id of the body implementing `trait::name` for `self_adt` (falls back to the trait default)."""
        i = self.trait_impls.get((trait, self_adt))
        if i is None:
            return None
        m = i["items"].get(name)
        if m is None:
            return None
        if m == "default":
            t = self.traits.get(trait)
            if not t:
                return None
            for it in t["items"]:
                if it["name"] == name:
                    return it["def"] if it["def"] in self.bodies else None
            return None
        return m["def"]

    def trait_default(self, trait, name):
        t = self.traits.get(trait)
        if not t:
            return None
        for it in t["items"]:
            if it["name"] == name and it["has_default"]:
                return it["def"] if it["def"] in self.bodies else None
        return None

    def implementors(self, trait):
        out = []
        for i in self.impls_of_trait.get(trait, []):
            out.append(adt_of(i["self_ty"]) or i["self_ty"]["s"])
        return out

    def resolve_callee(self, c, self_adt=None, bindings=None):
        """Resolve a call to a local body def id, if possible.

        self_adt: the concrete implementor the caller's `Self` is bound to (for trait defaults);
        bindings: optional map type-param name -> adt path (for generic adaptors/algorithms).
        Returns def id or None.
        """
        if c.indirect:
            return None
        if c.resolved_def and c.resolved_def in self.bodies and c.resolved_kind in (None, "Item"):
            return c.resolved_def
        if c.trait and c.trait in self.traits:
            target = c.self_adt
            if target is None:
                k = c.self_key()
                if k == "Self":
                    target = self_adt
                elif k and bindings and k in bindings:
                    target = bindings[k]
            if target is not None:
                m = self.method_impl(c.trait, c.name, target)
                if m:
                    return m
            return None
        if c.local and c.def_ in self.bodies:
            return c.def_
        return None

    def candidate_callees(self, c, self_adt=None, bindings=None):
        """All local bodies a call may dispatch to (over-approximation for call-graph rules)."""
        r = self.resolve_callee(c, self_adt, bindings)
        if r:
            return [r]
        if c.indirect:
            return []
        if c.trait and c.trait in self.traits:
            out = []
            for i in self.impls_of_trait.get(c.trait, []):
                m = i["items"].get(c.name)
                if isinstance(m, dict):
                    out.append(m["def"])
            d = self.trait_default(c.trait, c.name)
            if d:
                out.append(d)
            return [x for x in out if x in self.bodies]
        return []
