"""Pretty printer for orxfacts bodies (debugging aid and report excerpts)."""
import json
import sys


def pl(p):
    s = "_%d" % p["l"]
    for e in p["p"]:
        k = e["k"]
        if k == "deref":
            s = "(*%s)" % s
        elif k == "field":
            s = "%s.%s" % (s, e.get("name", e["i"]))
        elif k == "index":
            s = "%s[_%d]" % (s, e["l"])
        elif k == "downcast":
            s = "(%s as %s)" % (s, e.get("name", e["v"]))
        else:
            s = "%s.<%s>" % (s, k)
    return s


def op(o):
    k = o["k"]
    if k in ("copy", "move"):
        return ("move " if k == "move" else "") + pl(o["place"])
    if k == "const":
        if "fn" in o:
            return "fn:" + o["fn"]["full"]
        return "const " + o["s"]
    return o.get("s", "?")


def rv(r):
    k = r["k"]
    if k == "use":
        return op(r["op"])
    if k == "ref":
        return "&%s %s" % (r["bk"], pl(r["place"]))
    if k == "rawptr":
        return "&raw %s %s" % (r["pk"], pl(r["place"]))
    if k == "cast":
        return "%s as %s (%s)" % (op(r["op"]), r["ty"], r["ck"])
    if k == "binop":
        return "%s(%s, %s)" % (r["op"], op(r["a"]), op(r["b"]))
    if k == "unop":
        return "%s(%s)" % (r["op"], op(r["a"]))
    if k == "discr":
        return "discriminant(%s)" % pl(r["place"])
    if k == "aggregate":
        nm = r["ak"]
        if nm == "adt":
            nm = "%s::%s" % (r["adt"], r["variant_name"])
        elif nm == "closure":
            nm = "closure#" + r["def"]
        return "%s{%s}" % (nm, ", ".join(op(x) for x in r["ops"]))
    if k == "copy_for_deref":
        return "deref_copy " + pl(r["place"])
    if k == "repeat":
        return "[%s; %s]" % (op(r["op"]), r["n"])
    return k


def term(t):
    k = t["k"]
    if k == "goto":
        return "goto bb%d" % t["target"]
    if k == "switch":
        return "switch(%s) [%s, otherwise: bb%d]" % (
            op(t["discr"]), ", ".join("%d: bb%d" % (v, b) for v, b in t["targets"]), t["otherwise"])
    if k == "call":
        return "%s = %s(%s) -> bb%s unwind %s" % (
            pl(t["dest"]), op(t["func"]), ", ".join(op(a) for a in t["args"]), t["target"], t["unwind"])
    if k == "drop":
        return "drop(%s: %s) -> bb%d unwind %s" % (pl(t["place"]), t["ty"]["s"], t["target"], t["unwind"])
    if k == "assert":
        return "assert(%s == %s, %s) -> bb%d unwind %s" % (
            op(t["cond"]), t["expected"], t["msg"], t["target"], t["unwind"])
    return k


def body(b, out=sys.stdout):
    out.write("fn %s  [%s] %s:%d\n" % (b["path"], b["def"], b["loc"]["file"], b["loc"]["line"]))
    for i, l in enumerate(b["locals"]):
        out.write("  let _%d: %s\n" % (i, l["ty"]["s"]))
    for d in b["debug"]:
        if "place" in d:
            out.write("  debug %s => %s\n" % (d["name"], pl(d["place"])))
    for i, bb in enumerate(b["blocks"]):
        out.write("  bb%d%s:\n" % (i, " (cleanup)" if bb["cleanup"] else ""))
        for s in bb["stmts"]:
            if s["k"] == "assign":
                ex = s["loc"].get("outer_macro", s["loc"].get("expn", ""))
                out.write("    %s = %s   // L%d %s\n" % (pl(s["place"]), rv(s["rv"]), s["loc"]["line"], ex))
            elif s["k"] == "setdiscr":
                out.write("    discriminant(%s) = %d\n" % (pl(s["place"]), s["variant"]))
            elif s["k"] == "intrinsic":
                out.write("    intrinsic %s\n" % s["ik"])
        t = bb["term"]
        ex = t["loc"].get("outer_macro", t["loc"].get("expn", ""))
        out.write("    %s   // L%d %s\n" % (term(t), t["loc"]["line"], ex))


if __name__ == "__main__":
    d = json.load(open(sys.argv[1]))
    pat = sys.argv[2] if len(sys.argv) > 2 else ""
    for b in d["bodies"]:
        if pat in b["path"]:
            body(b)
            print()
