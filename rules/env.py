"""Analysis environment shared by all rules: facts, roles, evaluator, contexts, call graph, events."""
from facts import Facts, adt_of, norm_std, peel_ref
from terms import Evaluator, Ctx, fmt, is_atomic, atomic_kind, callee_model_key, PURE, subterms, mk_phi
from roles import Roles, place_path
from guards import block_facts, Prover, unref


class Ob:
    """One obligation generated from the program."""
    __slots__ = ("rule", "key", "status", "loc", "msg", "nontrivial", "detail")

    def __init__(self, rule, key, status, loc, msg, nontrivial=False, detail=None):
        self.rule = rule
        self.key = key
        self.status = status  # 'ok' | 'viol' | 'undecided'
        self.loc = loc
        self.msg = msg
        self.nontrivial = nontrivial
        self.detail = detail or {}

    def as_dict(self):
        return {"rule": self.rule, "key": self.key, "status": self.status, "loc": self.loc, "msg": self.msg,
                "nontrivial": self.nontrivial, "detail": self.detail}


def ordering_name(t):
    """'Relaxed'|'Acquire'|... from an ordering argument term"""
    if t[0] == "agg" and "::Ordering::" in t[1]:
        return t[1].split("::")[-1]
    if t[0] == "const" and "Ordering::" in t[1]:
        return t[1].split("::")[-1]
    if t[0] == "phi":
        names = {ordering_name(x) for x in t[1]}
        if len(names) == 1:
            return names.pop()
    return None


class Event:
    __slots__ = ("kind", "bb", "body", "ctx", "term", "callee", "args", "info")

    def __init__(self, kind, bb, ctx, callee=None, args=(), **info):
        self.kind = kind
        self.bb = bb
        self.ctx = ctx
        self.body = ctx.body
        self.callee = callee
        self.args = args
        self.info = info

    def loc(self):
        if self.kind in ("binop", "view"):
            return self.body.file_line(self.info["stmt"]["loc"])
        return self.body.file_line(self.body.term(self.bb)["loc"])


class Env:
    def __init__(self, F):
        self.F = F
        self.R = Roles(F)
        self.ev = self.R.ev
        self._ctx = {}
        self._events = {}
        self._bindcache = {}
        self.ev.bind_fn = self._bind
        self.short = {}
        for adt, r in self.R.impl.items():
            self.short[adt] = r["name"]

    # ---- worlds: concrete instantiations of the generic code ---------------------------------------
    def worlds(self):
        """list of worlds (dicts): every implementor, and every adaptor over every reference-yielding inner"""
        R = self.R
        out = []
        for adt, r in R.impl.items():
            if r["kind"] != "adaptor":
                out.append({"iter": adt, "puller": r["puller"], "name": r["name"]})
        inners = [a for a, r in R.impl.items() if r["kind"] != "adaptor"
                  and (r["name"].endswith("Slice") or r["kind"] == "ticket")]
        for adt in R.adaptors:
            r = R.impl[adt]
            for inn in inners:
                ri = R.impl[inn]
                out.append({"iter": adt, "puller": r["puller"], "inner": inn, "inner_puller": ri["puller"],
                            "name": "%s<%s>" % (r["name"], ri["name"])})
        return out

    def world_of(self, adt, inner=None):
        for w in self.worlds():
            if w["iter"] == adt and (inner is None or w.get("inner") == inner):
                return w
        return None

    def _bind(self, body, world):
        key = (body.def_, world.get("iter"), world.get("inner"))
        b = self._bindcache.get(key)
        if b is not None:
            return b
        root = self.F.bodies.get(body.root, body) if body.is_closure else body
        info = self.F.fns.get(root.def_) or {}
        S = self.F.impl_self_adt(root)
        adaptor_side = S is not None and (S in self.R.adaptors or
                                          S in [self.R.impl[a].get("puller") for a in self.R.adaptors])
        it = world.get("inner") if adaptor_side else world.get("iter")
        pu = world.get("inner_puller") if adaptor_side else world.get("puller")
        b = {}
        for pred in info.get("predicates", []):
            if ": " not in pred:
                continue
            lhs, rhs = pred.split(": ", 1)
            if not lhs.isidentifier():
                continue
            rhs = norm_std(rhs)
            tr = rhs.split("<")[0]
            if tr == self.R.T_CHUNK:
                if pu:
                    b[lhs] = pu
                if it:
                    b[lhs + "::ConIter"] = it
            elif tr in (self.R.T_CON, self.R.T_ATOMIC, self.R.T_LEN):
                if it:
                    b[lhs] = it
                if pu:
                    b[lhs + "::BufferedIter"] = pu
        self._bindcache[key] = b
        return b

    # ---- naming
    def sname(self, adt):
        if adt is None:
            return "?"
        return self.short.get(adt, adt.split("::")[-1])

    def fname(self, body):
        """stable, line-free function key: `<SelfAdt>::<name>` or trait-default `Trait::name` or free path"""
        b = body
        suffix = ""
        while b.is_closure:
            idx = b.path.rsplit("{closure#", 1)[-1].rstrip("}")
            suffix = "::{closure#%s}%s" % (idx, suffix)
            b = self.F.bodies.get(b.parent, None) or self.F.bodies.get(b.root)
            if b is None:
                return body.path
        info = b.info or {}
        adt = self.F.impl_self_adt(b)
        tr = info.get("trait")
        nm = b.name or "?"
        if adt:
            base = adt.split("::")[-1]
            if tr and info.get("container") == "trait_impl":
                return "%s::<%s>::%s%s" % (base, norm_std(tr).split("::")[-1], nm, suffix)
            return "%s::%s%s" % (base, nm, suffix)
        if tr:
            return "%s::%s%s" % (norm_std(tr).split("::")[-1], nm, suffix)
        return b.path + suffix

    # ---- contexts
    def ctx(self, body, self_adt=None, bindings=None):
        """Evaluation context; closures are bound to their creation site in the parent."""
        if self_adt is None:
            self_adt = self.F.impl_self_adt(body)
        key = (body.def_, self_adt, (bindings or {}).get("iter"), (bindings or {}).get("inner"))
        c = self._ctx.get(key)
        if c is not None:
            return c
        if body.is_closure and body.parent in self.F.bodies:
            parent = self.F.bodies[body.parent]
            pctx = self.ctx(parent, self_adt, bindings)
            clo = None
            for bi, bb in enumerate(parent.blocks):
                for s in bb["stmts"]:
                    if s["k"] == "assign" and s["rv"]["k"] == "aggregate" and s["rv"].get("ak") == "closure" \
                            and s["rv"]["def"] == body.def_:
                        clo = self.ev.rvalue(pctx, s["rv"])
            params = None
            if clo is not None:
                params = [clo]
                # bind the closure argument when it is invoked by a modelled Option combinator
                arg = None
                for bi, t, c2 in parent.calls():
                    mk = PURE.get(callee_model_key(c2))
                    if mk in ("Option::map", "Option::and_then", "Option::map_or") and len(t["args"]) in (2, 3):
                        a1 = self.ev.operand(pctx, t["args"][-1])
                        if unref(a1) == clo:
                            recv = self.ev.operand(pctx, t["args"][0])
                            arg = self.ev.payload(pctx, recv)
                if arg is not None:
                    params.append(arg)
                params = tuple(params)
            c = Ctx(body, params=params, self_adt=pctx.self_adt, bindings=pctx.bindings,
                    stack=pctx.stack + (body.def_,), site=((body.def_, "closure"),))
            if clo is not None:
                from guards import bool_facts
                entry = []
                for bi, t, c2 in parent.calls():
                    mk = PURE.get(callee_model_key(c2)) if not c2.indirect else None
                    if mk == "bool::then" and len(t["args"]) == 2 and unref(self.ev.operand(pctx, t["args"][1])) == clo:
                        entry.extend(bool_facts(self.ev.operand(pctx, t["args"][0]), True))
                    if mk in ("Option::map", "Option::and_then", "Option::map_or") and len(t["args"]) in (2, 3) \
                            and unref(self.ev.operand(pctx, t["args"][-1])) == clo:
                        entry.extend(self._some_site_facts(pctx, t["args"][0]))
                c.entry_facts = tuple(entry)
        else:
            c = Ctx(body, params=None, self_adt=self_adt, bindings=bindings, stack=(body.def_,))
        self._ctx[key] = c
        return c

    # ---- call graph
    def callees(self, body, self_adt=None, bindings=None, over_approx=False):
        """local bodies called from `body` (closures created in it count as called)"""
        out = []
        bnd = self._bind(body, bindings) if bindings else None
        for bi, t, c in body.calls():
            if over_approx:
                ds = self.F.candidate_callees(c, self_adt, bnd)
            else:
                d = self.F.resolve_callee(c, self_adt, bnd)
                ds = [d] if d else []
            for d in ds:
                cb = self.F.bodies[d]
                out.append((bi, cb, self._callee_self(c, cb, self_adt, bnd)))
        for cl in self.F.closures_of.get(body.def_, []):
            out.append((None, cl, self_adt))
        return out

    def _callee_self(self, c, cb, self_adt, bindings):
        a = self.F.impl_self_adt(cb)
        if a:
            return a
        if c.self_adt:
            return c.self_adt
        k = c.self_key()
        if k == "Self":
            return self_adt
        if k and bindings and k in bindings:
            return bindings[k]
        return self_adt

    def reach(self, body, self_adt=None, bindings=None, over_approx=False):
        """set of (def, self_adt) reachable through the crate call graph from body"""
        seen = {}
        st = [(body, self_adt if self_adt is not None else self.F.impl_self_adt(body))]
        while st:
            b, sa = st.pop()
            k = (b.def_, sa)
            if k in seen:
                continue
            seen[k] = (b, sa)
            for _, cb, csa in self.callees(b, sa, bindings, over_approx):
                st.append((cb, csa))
        return list(seen.values())

    def callers_of(self, target_def, universe, world=None):
        """(body, self_adt, bb) call sites of target among universe (list of (body, self_adt))"""
        out = []
        for b, sa in universe:
            for bi, t, c in b.calls():
                if self.F.resolve_callee(c, sa, self._bind(b, world) if world else None) == target_def:
                    out.append((b, sa, bi))
        return out

    # ---- events
    def events(self, body, self_adt=None, bindings=None):
        ctx = self.ctx(body, self_adt, bindings)
        key = id(ctx)
        if key in self._events:
            return self._events[key]
        out = []
        for bi, t, c in body.calls():
            if body.blocks[bi]["cleanup"]:
                continue
            args = tuple(self.ev.operand(ctx, a) for a in t["args"])
            if c.indirect:
                out.append(Event("indirect_call", bi, ctx, c, args))
                continue
            if is_atomic(c):
                ordn = [ordering_name(a) for a in args[1:] if ordering_name(a)]
                out.append(Event("atomic", bi, ctx, c, args, op=c.name, place=args[0] if args else None,
                                 orderings=ordn, akind=atomic_kind(c)))
                continue
            out.append(Event("call", bi, ctx, c, args, model=PURE.get(callee_model_key(c)),
                             mkey=callee_model_key(c)))
        self._events[key] = out
        return out

    def view_adts(self):
        """local structs that are owning views into storage: exactly one raw-pointer field and one usize field, and a
        Drop impl; returns {adt path: {ptr: field idx, len: field idx}}"""
        v = getattr(self, "_views", None)
        if v is not None:
            return v
        v = {}
        for path, a in self.F.adts.items():
            if a["kind"] != "Struct" or not a.get("drop_fn"):
                continue
            fs = a["variants"][0]["fields"]
            ptrs = [i for i, f in enumerate(fs) if f["ty"].get("k") == "ptr"]
            lens = [i for i, f in enumerate(fs) if f["ty"]["s"] == "usize"]
            if len(ptrs) == 1 and len(lens) == 1 and len(fs) == 2:
                v[path] = {"ptr": ptrs[0], "len": lens[0]}
        self._views = v
        return v

    def flat_events(self, body, self_adt=None, world=None, max_depth=6, own_closures=False):
        """events of body with crate-local callees (and the closures they create) inlined; each event carries top_bb
        (block of `body`) and chain. own_closures: also inline the closures created by `body` itself (rules that analyse
        those closures as bodies of their own leave it off)"""
        ctx = self.ctx(body, self_adt, world)
        key = ("flat", id(ctx), max_depth, own_closures)
        if key in self._events:
            return self._events[key]
        out = []
        self._flat(ctx, None, (), out, 0, max_depth, own_closures)
        self._events[key] = out
        return out

    def _flat(self, ctx, top_bb, chain, out, depth, max_depth, own_closures=False):
        body = ctx.body
        # arithmetic statements
        for bi, blk in enumerate(body.blocks):
            if blk["cleanup"]:
                continue
            for si, s in enumerate(blk["stmts"]):
                if s["k"] == "assign" and s["rv"]["k"] == "binop":
                    op = s["rv"]["op"]
                    base = op.replace("WithOverflow", "").replace("Unchecked", "")
                    if base in ("Add", "Sub", "Mul"):
                        if s["loc"].get("expn", "").startswith("macro:") and "derive" in s["loc"].get("expn", ""):
                            continue
                        e = Event("binop", bi, ctx, None, (self.ev.operand(ctx, s["rv"]["a"]),
                                                           self.ev.operand(ctx, s["rv"]["b"])),
                                  op=base, raw_op=op, stmt=s, ty=body.locals[s["place"]["l"]]["ty"]["s"])
                        e.info["top_bb"] = bi if top_bb is None else top_bb
                        e.info["chain"] = chain
                        out.append(e)
        # constructions of view structs (a raw pointer into storage + a length, with a Drop impl)
        views = self.view_adts()
        if views:
            for bi, blk in enumerate(body.blocks):
                if blk["cleanup"]:
                    continue
                for s in blk["stmts"]:
                    if s["k"] == "assign" and s["rv"]["k"] == "aggregate" and s["rv"].get("ak") == "adt" \
                            and norm_std(s["rv"]["adt"]) in views:
                        v = views[norm_std(s["rv"]["adt"])]
                        ops = tuple(self.ev.operand(ctx, o) for o in s["rv"]["ops"])
                        e = Event("view", bi, ctx, None, (ops[v["ptr"]], ops[v["len"]]), adt=norm_std(s["rv"]["adt"]),
                                  stmt=s)
                        e.info["top_bb"] = bi if top_bb is None else top_bb
                        e.info["chain"] = chain
                        out.append(e)
        for bi, t, c in body.calls():
            if body.blocks[bi]["cleanup"]:
                continue
            tb = bi if top_bb is None else top_bb
            args = tuple(self.ev.operand(ctx, a) for a in t["args"])
            if c.indirect:
                e = Event("indirect_call", bi, ctx, c, args)
            elif is_atomic(c):
                ordn = [ordering_name(a) for a in args[1:] if ordering_name(a)]
                e = Event("atomic", bi, ctx, c, args, op=c.name, place=args[0] if args else None,
                          orderings=ordn, akind=atomic_kind(c))
            else:
                e = Event("call", bi, ctx, c, args, model=PURE.get(callee_model_key(c)), mkey=callee_model_key(c))
            e.info["top_bb"] = tb
            e.info["chain"] = chain
            out.append(e)
            if e.kind == "call" and depth < max_depth:
                nctx = self.ev.callee_ctx(ctx, bi, args)
                if nctx is not None:
                    e.info["inlined"] = True
                    self._flat(nctx, tb, chain + ((body, bi, ctx),), out, depth + 1, max_depth)
        # closures created by an inlined callee run as part of it (those of the analysed body itself are analysed as
        # bodies of their own by the rules)
        if (depth > 0 or own_closures) and depth < max_depth:
            for cl in self.F.closures_of.get(body.def_, []):
                cctx, cbb = self.closure_ctx(ctx, cl)
                if cctx is not None:
                    tb = cbb if top_bb is None else top_bb
                    self._flat(cctx, tb, chain + ((body, cbb, ctx),), out, depth + 1, max_depth)

    def _some_site_facts(self, pctx, recv_op):
        """facts common to every place where the Option held by operand recv_op gets a `Some` (guards.site_cases)"""
        from guards import local_cases, class_facts
        if recv_op["k"] not in ("copy", "move") or recv_op["place"]["p"] or getattr(self.ev, "_inprogress", None):
            return []
        cs = local_cases(self.ev, pctx, recv_op["place"]["l"]) or []
        return class_facts(cs, "Some")

    def closure_ctx(self, pctx, cl):
        """(context, creation block) of closure body cl created in the activation pctx of its parent: the closure
        environment is bound to the creation site; its argument and entry facts come from the modelled combinator that
        runs it (Option::map / and_then / map_or: payload of the receiver; bool::then: condition true)"""
        key = ("closure_ctx", cl.def_)
        if key in pctx.memo:
            return pctx.memo[key]
        from guards import bool_facts
        parent = pctx.body
        clo, cbb = None, None
        for bi, bb in enumerate(parent.blocks):
            if bb["cleanup"]:
                continue
            for s in bb["stmts"]:
                if s["k"] == "assign" and s["rv"]["k"] == "aggregate" and s["rv"].get("ak") == "closure" \
                        and s["rv"]["def"] == cl.def_:
                    clo = self.ev.rvalue(pctx, s["rv"])
                    cbb = bi
        res = (None, None)
        if clo is not None and cl.def_ not in pctx.stack and pctx.depth < self.ev.MAX_DEPTH:
            params = [clo]
            entry = []
            for bi, t, c2 in parent.calls():
                mk = PURE.get(callee_model_key(c2)) if not c2.indirect else None
                if mk in ("Option::map", "Option::and_then", "Option::map_or") and len(t["args"]) in (2, 3):
                    if unref(self.ev.operand(pctx, t["args"][-1])) == clo:
                        recv = self.ev.operand(pctx, t["args"][0])
                        pay = self.ev.payload(pctx, recv)
                        params.append(pay)
                        entry.append(("is_some", unref(recv), True))
                        # what held wherever this `Some(payload)` was built
                        entry.extend(self.ev.payload_facts.get(pay, []))
                        entry.extend(self.ev.payload_flags.get(pay, []))
                        entry.extend(self._some_site_facts(pctx, t["args"][0]))
                elif mk == "bool::then" and len(t["args"]) == 2:
                    if unref(self.ev.operand(pctx, t["args"][1])) == clo:
                        entry.extend(bool_facts(self.ev.operand(pctx, t["args"][0]), True))
            while len(params) < cl.arg_count:
                params.append(("clarg", cl.def_, len(params) + 1))  # an argument supplied by whoever runs the closure
            cctx = Ctx(cl, params=tuple(params), self_adt=pctx.self_adt, bindings=pctx.bindings, depth=pctx.depth + 1,
                       site=pctx.site + ((cl.def_, "closure"),), stack=pctx.stack + (cl.def_,), parent=(pctx, cbb))
            cctx.entry_facts = tuple(entry)
            res = (cctx, cbb)
        pctx.memo[key] = res
        return res

    def event_facts(self, e):
        """guard facts that hold when a flat event executes: those of its own block and of every call site on its chain"""
        fs = []
        for (cb, cbb, cctx) in e.info.get("chain", ()):
            fs.extend(block_facts(self.ev, cctx, cbb))
            fs.extend(self.creation_facts(cb, cctx))
        fs.extend(block_facts(self.ev, e.ctx, e.bb))
        fs.extend(self.creation_facts(e.body, e.ctx))
        return fs

    def creation_facts(self, body, ctx):
        """for a closure body: the facts that hold where the closure is created in its parent (it cannot run before)"""
        out = []
        b = body
        guard = 0
        while b.is_closure and b.parent in self.F.bodies and guard < 5:
            guard += 1
            parent = self.F.bodies[b.parent]
            pctx = self.ctx(parent, ctx.self_adt, ctx.bindings if isinstance(ctx.bindings, dict) and ctx.bindings else None)
            for bi, blk in enumerate(parent.blocks):
                for s in blk["stmts"]:
                    if s["k"] == "assign" and s["rv"]["k"] == "aggregate" and s["rv"].get("ak") == "closure" \
                            and s["rv"]["def"] == b.def_:
                        out.extend(block_facts(self.ev, pctx, bi))
            b = parent
        return out

    def event_prover(self, e, extra=(), extra_le=None):
        return Prover(self.event_facts(e) + list(extra), self.ev, e.ctx, extra_le=extra_le,
                      payload_facts=self.ev.payload_facts)

    def len_of(self, adt, self_term):
        """LEN(X) evaluated for the implementor reached through self_term (a reference term)"""
        lb = self.R.method_body(self.R.T_LEN, "initial_len", adt) if self.R.T_LEN else None
        if lb is None:
            return None
        nctx = Ctx(lb, params=(self_term,), self_adt=adt, stack=(lb.def_,))
        return self.ev.local(nctx, 0)

    def prover(self, ctx, bb, extra=()):
        fs = list(block_facts(self.ev, ctx, bb)) + list(extra)
        return Prover(fs, self.ev, ctx, payload_facts=self.ev.payload_facts)

    # ---- misc helpers
    def pull_entries(self, adt):
        """bodies of the pull entry points of an implementor: list of (label, body, self_adt)"""
        R, F = self.R, self.F
        out = []
        for nm in ("next_id_and_value", "next_chunk", "buffered_iter", "next", "values", "ids_and_values",
                   "for_each", "enumerate_for_each", "fold"):
            b = R.method_body(R.T_CON, nm, adt)
            if b:
                out.append((nm, b, adt))
        for nm in ("fetch_one", "fetch_n", "get", "progress_and_get_begin_idx"):
            b = R.method_body(R.T_ATOMIC, nm, adt)
            if b:
                out.append((nm, b, adt))
        return out

    def buffered_next(self):
        """the body of BufferedIter::next (the buffered pull driver) — found by its use of BufferedChunk::pull"""
        out = []
        for b in self.F.non_test_bodies():
            if b.is_closure:
                continue
            for bi, t, c in b.calls():
                if c.trait == self.R.T_ATOMIC and c.name == "progress_and_get_begin_idx" \
                        and self.F.impl_self_adt(b) and "BufferedIter" in (self.F.impl_self_adt(b) or ""):
                    out.append(b)
        return list({b.def_: b for b in out}.values())
