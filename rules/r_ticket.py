"""Rules about the ticket hand-off of the wrapper over an arbitrary Iterator (mechanism M2):
TICKET (admission by equality only), ORD (orderings), CELL (who may touch what is behind an UnsafeCell),
STICKY, DONE-EVID, LIVE(b,c), UNW.
"""
from env import Ob, ordering_name
from guards import block_facts, unref
from terms import fmt, subterms, PURE, callee_model_key
from facts import norm_std
from roles import place_path

ACQ = ("Acquire", "AcqRel", "SeqCst")
REL = ("Release", "AcqRel", "SeqCst")


class Ticket:
    """Shared analysis of the ticket implementor: universe of bodies, events, held regions."""

    def __init__(self, env):
        self.env = env
        R = env.R
        self.adt = R.ticket
        self.ok = self.adt is not None
        if not self.ok:
            return
        self.r = R.impl[self.adt]
        self.world = env.world_of(self.adt)
        self.universe = self._universe()
        self._held = {}

    def _universe(self):
        env, R, F = self.env, self.env.R, self.env.F
        seen = {}
        entries = []
        for tr in (R.T_CON, R.T_ATOMIC):
            t = F.traits.get(tr)
            for it in t["items"]:
                if it["kind"].startswith("Fn") or it["kind"] == "Fn":
                    d = F.method_impl(tr, it["name"], self.adt)
                    if d and d in F.bodies:
                        entries.append(F.bodies[d])
        # inherent methods of the implementor and its puller, Drop etc.
        for b in F.non_test_bodies():
            sa = F.impl_self_adt(b)
            if sa in (self.adt, self.r.get("puller")) and not b.is_closure:
                entries.append(b)
        for e in entries:
            for (b, sa) in env.reach(e, self.adt if F.impl_self_adt(e) is None else None, self.world):
                if F.is_test_item(b):
                    continue
                seen[(b.def_, sa)] = (b, sa)
        return list(seen.values())

    # ---- events -----------------------------------------------------------------------------------
    def role_of(self, place):
        return self.env.R.classify(place)

    def direct_events(self, b, sa):
        """flat events of b (wrappers inlined), classified"""
        out = []
        for e in self.env.flat_events(b, sa, self.world):
            out.append(e)
        return out

    def is_release(self, e):
        """release event of the hand-off: RMW on SERVING, or store(true) to DONE"""
        if e.kind != "atomic":
            return False
        role, adt = self.role_of(e.info["place"])
        if adt != self.adt:
            return False
        if role == "serving" and e.info["op"] in ("fetch_add", "fetch_sub", "swap", "store", "compare_exchange",
                                                  "compare_exchange_weak", "fetch_max", "fetch_update"):
            return True
        if role == "done" and e.info["op"] == "store":
            return True
        return False

    def is_cell_get(self, e):
        if e.kind == "call" and e.info.get("model") == "UnsafeCell::get" and e.args:
            role, adt = self.role_of(e.args[0])
            return role == "cell" and adt == self.adt
        return False

    def is_inner_next(self, e):
        """<G as Iterator>::next on the wrapped iterator's type parameter"""
        if e.kind != "call" or e.callee.trait != "std::iter::Iterator" or e.callee.name != "next":
            return False
        return e.callee.self_param is not None

    def release_blocks(self, b, sa):
        """blocks in which a release *may* happen (the block's call, or something it calls, contains a release event)"""
        return {e.info["top_bb"] for e in self.direct_events(b, sa) if self.is_release(e)}

    def must_release_blocks(self, b, sa):
        """blocks in which a release happens on every path: a release primitive itself, or a call of a crate-local function
        all of whose normal paths pass such a block (a helper that releases only on some paths does not count)"""
        key = ("mustrel", b.def_, sa)
        if key not in self._held:
            self._held[key] = self._must_release_ctx(self.env.ctx(b, sa, self.world), 0)
        return self._held[key]

    def _must_release_ctx(self, ctx, depth):
        from terms import is_atomic
        ev = self.env.ev
        body = ctx.body
        out = set()
        for bi, t, c in body.calls():
            if body.blocks[bi]["cleanup"] or c.indirect:
                continue
            args = tuple(ev.operand(ctx, a) for a in t["args"])
            if is_atomic(c):
                role, adt = self.role_of(args[0]) if args else (None, None)
                if adt == self.adt and ((role == "serving" and c.name in ("fetch_add", "fetch_sub", "swap", "store",
                                                                          "compare_exchange", "compare_exchange_weak",
                                                                          "fetch_max", "fetch_update"))
                                        or (role == "done" and c.name == "store")):
                    out.add(bi)
                continue
            if depth >= 6:
                continue
            nctx = ev.callee_ctx(ctx, bi, args)
            if nctx is not None:
                crel = self._must_release_ctx(nctx, depth + 1)
                cb = nctx.body
                # paths of the callee on which there is nothing to release: the end flag is known to be set (nobody is
                # admitted any more), or the ticket is known to have been passed (ticket < now-serving — not a path of a
                # caller that holds the ticket)
                void = set()
                if crel:
                    for x in cb.reachable(0):
                        if cb.blocks[x]["cleanup"]:
                            continue
                        for f in block_facts(ev, nctx, x):
                            if f[0] == "flag" and f[2] is True and self.role_of(f[1]) == ("done", self.adt):
                                void.add(x)
                            if f[0] == "lt" and len(f) == 3 and self.serving_load(f[2]) is not None:
                                void.add(x)
                            if f[0] == "anyof" and f[1] and all(
                                    any((g[0] == "flag" and g[2] is True and self.role_of(g[1]) == ("done", self.adt)) or
                                        (g[0] == "lt" and len(g) == 3 and self.serving_load(g[2]) is not None) for g in alt)
                                    for alt in f[1]):
                                void.add(x)
                if crel and (0 in crel or not cb.paths_avoiding(0, set(cb.exits()), crel | void)):
                    out.add(bi)
        return out

    def serving_load(self, a):
        """the load term if `a` is a load of the now-serving counter of the ticket implementor — or a local that holds the
        latest of several such loads (`let mut y = load(); while .. { y = load(); }`): the first of them; else None"""
        if a[0] == "atomic" and a[1] == "load":
            role, adt = self.role_of(a[2])
            return a if (role == "serving" and adt == self.adt) else None
        if a[0] == "phi" and a[1]:
            ls = [self.serving_load(x) for x in a[1]]
            if all(x is not None for x in ls):
                return ls[0]
        return None

    # ---- admission --------------------------------------------------------------------------------
    def admission_fact(self, ctx, bb, own_only=False):
        """(load_term, ticket_term) if block bb is dominated by an `ticket == load(SERVING)` edge.
        own_only: ignore what is known at the entry of a closure from the call that runs it (those facts say that the
        ticket *was* admitted when the value was produced, not that it is still held)"""
        entry = list(getattr(ctx, "entry_facts", ()) or ()) if own_only else []
        for f in block_facts(self.env.ev, ctx, bb):
            if f in entry:
                continue
            if f[0] == "eq" and len(f) == 3:
                for a, b in ((f[1], f[2]), (f[2], f[1])):
                    ld = self.serving_load(a)
                    if ld is not None and self._still_held(ctx, ld):
                        return (ld, b)
        return None

    def _still_held(self, ctx, load):
        """An admission observed by a callee (the fact reached this body through the callee's return value) opens a held
        region here only if the callee hands the ticket to its caller; a callee that used and released the ticket itself
        returns ordinary data."""
        site = load[4] if len(load) > 4 else ()
        F = self.env.F
        chain = set()
        bd = ctx.body
        guard = 0
        while bd is not None and guard < 6:
            chain.add(bd.def_)
            bd = F.bodies.get(bd.parent) if bd.is_closure else None
            guard += 1
        cb = None
        for fr in site:
            if fr[0] in chain and isinstance(fr[1], int):
                body = F.bodies[fr[0]]
                c = body.callee(fr[1])
                if c is None or c.indirect:
                    return True
                d = F.resolve_callee(c, ctx.self_adt, self.env.ev.bind(ctx))
                if d is None or d not in F.bodies:
                    return True
                cb = F.bodies[d]
                break
        if cb is None:
            return True
        csa = F.impl_self_adt(cb) or ctx.self_adt
        if (F.impl_self_adt(cb) or "").endswith("::AtomicCounter"):
            return True  # the load itself, through the counter wrapper
        key = ("stillheld", d, csa)
        if key not in self._held:
            self._held[key] = None  # (recursion guard: undecided counts as not handing over)
            self._held[key] = any(okk and hands for (okk, _g, _w, hands) in self.handover_sites(cb, csa).values())
        return bool(self._held[key])

    def admitting_call(self, pctx, recv, op=None):
        """does the Option-valued term recv come from a callee whose every `Some` is built under an admission?
        op: the operand holding recv, for the site based judgement (every definition site of the value that yields `Some`
        lies under the admission and yields `Some(ticket)`)"""
        if op is not None and op.get("k") in ("copy", "move") and not op["place"]["p"]:
            from guards import local_cases, class_facts
            cs = [c for c in (local_cases(self.env.ev, pctx, op["place"]["l"]) or []) if c[0] == "Some"]
            if cs:
                adm = None
                for f in class_facts(cs, "Some"):
                    adm = adm or self.is_admission(f)
                if adm is not None and all(v is not None and v[0] == "agg" and v[2] and unref(v[2][0]) == unref(adm[1])
                                           for (_K, _fs, v) in cs) and self._still_held(pctx, adm[0]):
                    return adm[0]
        p = self.env.ev.payload(pctx, recv)
        if p[0] == "payload":
            return None
        for f in self.env.ev.payload_facts.get(p, []):
            if f[0] == "eq":
                for a, b in ((f[1], f[2]), (f[2], f[1])):
                    ld = self.serving_load(a)
                    # (an admission that reached this body inside the result of a callee that does not itself hand the ticket
                    #  on — it used and released it — opens no region here)
                    if ld is not None and b == p and self._still_held(pctx, ld):
                        return ld
        return None

    # ---- return values that carry the ticket --------------------------------------------------------
    def is_admission(self, f):
        """(load, ticket) if fact f is `ticket == load(now-serving)`"""
        if f[0] == "eq" and len(f) == 3:
            for a, b in ((f[1], f[2]), (f[2], f[1])):
                ld = self.serving_load(a)
                if ld is not None:
                    return (ld, b)
        return None

    def is_gate(self, f, val):
        if f[0] == "flag" and f[2] is val:
            role, adt = self.role_of(f[1])
            return role == "done" and adt == self.adt
        return False

    def ret_sites(self, b, sa):
        """{block: [(class, facts)]} for the definition sites of the return value of b (see guards.site_cases)"""
        key = ("retsites", b.def_, sa)
        if key not in self._held:
            from guards import site_cases
            ctx = self.env.ctx(b, sa, self.world)
            self._held[key] = site_cases(self.env.ev, ctx, 0, True) or {}
        return self._held[key]

    def handover_sites(self, b, sa):
        """Definition sites of the return value under an admission, judged: {block: (ok, gated, why, hands)}.
        A site hands the ticket to the caller soundly when, for every class of value it can produce (Some/None, true/false)
        either the end flag is known to be set (nobody is admitted, nothing to release) or *every* site producing that
        class does so under the admission: the caller can then tell from the value that it holds the ticket."""
        from guards import class_facts
        rt = b.locals[0]["ty"]["s"].replace("core::", "std::")
        if rt == "bool":
            classes = (True, False)
        elif rt.startswith("std::option::Option<"):
            classes = ("Some", "None")
        else:
            # a field-less enum of the crate (`enum Turn { Mine, NotYet, Over }`): one class per variant
            a = self.env.F.adts.get(norm_std(rt.split("<")[0]))
            if not a or a.get("kind") != "Enum" or any(v["fields"] for v in a["variants"]):
                return {}
            classes = tuple(v["name"] for v in a["variants"])
        sites = {bb: [c for c in cs if c[0] in classes and type(c[0]) is type(classes[0])]
                 for bb, cs in self.ret_sites(b, sa).items()}
        allc = [c for bb in sorted(sites) for c in sites[bb]]
        out = {}
        for bb, cases in sites.items():
            if not any(self.is_admission(f) for (K, fs, v) in cases for f in fs):
                continue
            ok, gated, why, hands = True, True, "", False
            for (K, fs, v) in cases:
                adm = [self.is_admission(f) for f in fs if self.is_admission(f)]
                if not adm:
                    # (a definition site that is a call covers several paths of the callee: this one was not admitted and
                    #  carries no duty; whether the caller can tell the cases apart is judged per class below)
                    continue
                if any(self.is_gate(f, True) for f in fs):
                    continue  # end flag set: left without the ticket
                if K == "Some" and not (v is not None and v[0] == "agg" and v[2] and
                                        any(unref(v[2][0]) == unref(a[1]) for a in adm)):
                    ok = False
                    why = "the Some returned under the admission does not carry the ticket"
                    continue
                cf = class_facts(allc, K)
                if not any(self.is_admission(f) for f in cf):
                    ok = False
                    why = "the value returned here (class %s) is also returned by paths that were not admitted: the " \
                          "caller cannot tell that it holds the ticket" % (K,)
                else:
                    hands = True
                    if not any(self.is_gate(f, False) for f in cf):
                        gated = False
            out[bb] = (ok, gated, why, hands)
        return out

    def held(self, b, sa, bb, trail=()):
        """Is block bb of body b inside a held region? returns (bool, why, admission load term or None)"""
        key = (b.def_, sa, bb)
        if key in self._held:
            return self._held[key]
        if key in trail:
            return (False, "recursive", None)
        res = self._held_compute(b, sa, bb, trail + (key,))
        self._held[key] = res
        return res

    def _after_release(self, b, sa, bb, start_blocks):
        """is bb reachable from a release block that itself lies in the region (reachable from start)?"""
        rel = self.release_blocks(b, sa)
        for r in rel:
            if r == bb:
                continue
            if bb in b.reachable(r):
                # the release must itself be on a path from the region start
                if any(r in b.reachable(s) for s in start_blocks):
                    return True
        return False

    def _held_compute(self, b, sa, bb, trail):
        env = self.env
        ctx = env.ctx(b, sa, self.world)
        adm = self.admission_fact(ctx, bb, own_only=b.is_closure)
        if adm is not None:
            # find the admission edge target(s): blocks that carry the fact and dominate bb
            starts = [d for d in b.dominators().get(bb, ()) if self.admission_fact(ctx, d, own_only=b.is_closure) is not None]
            if self._after_release(b, sa, bb, starts or [bb]):
                return (False, "after the release of the ticket", adm[0])
            return (True, "dominated by ticket == load(SERVING)", adm[0])
        # continuation of an admitting call by a `match` / `if let Some(ticket)` on its result
        for f in block_facts(env.ev, ctx, bb):
            if f[0] == "is_some" and f[2] is True:
                ld = self.admitting_call(ctx, f[1])
                if ld is not None:
                    starts = [d for d in b.dominators().get(bb, ()) if any(
                        g[0] == "is_some" and g[2] is True and g[1] == f[1] for g in block_facts(env.ev, ctx, d))]
                    if self._after_release(b, sa, bb, starts or [bb]):
                        return (False, "after the release of the ticket", ld)
                    return (True, "continuation of an admitting call (matched on Some)", ld)
        if b.is_closure and b.parent in env.F.bodies:
            parent = env.F.bodies[b.parent]
            pctx = env.ctx(parent, sa, self.world)
            # closure used as continuation of an admitting call
            clo = ctx.params[0] if ctx.params else None
            for bi, t, c in parent.calls():
                mk = PURE.get(callee_model_key(c))
                if mk in ("Option::map", "Option::and_then") and len(t["args"]) == 2:
                    a1 = env.ev.operand(pctx, t["args"][1])
                    if clo is not None and unref(a1) == clo:
                        recv = env.ev.operand(pctx, t["args"][0])
                        ld = self.admitting_call(pctx, recv, t["args"][0])
                        if ld is not None:
                            if self._after_release(b, sa, bb, [0]):
                                return (False, "after the release of the ticket", ld)
                            return (True, "continuation of an admitting call", ld)
            # closure invoked inside its parent (iterator adaptors): held iff its creation site is held
            for bi, blk in enumerate(parent.blocks):
                for s in blk["stmts"]:
                    if s["k"] == "assign" and s["rv"]["k"] == "aggregate" and s["rv"].get("ak") == "closure" \
                            and s["rv"]["def"] == b.def_:
                        h = self.held(parent, sa, bi, trail)
                        if h[0]:
                            # the closure must not outlive the region: parent's release blocks must be after all
                            # uses, which rule ORD.iii checks on the parent
                            return (True, "closure created inside a held region (%s)" % h[1], h[2])
                        return (False, "closure created outside a held region", None)
            return (False, "closure without admitting context", None)
        # ordinary function: held iff every call site is held
        sites = env.callers_of(b.def_, self.universe, self.world)
        sites = [(cb, csa, cbb) for (cb, csa, cbb) in sites if not cb.blocks[cbb]["cleanup"]]
        if not sites:
            return (False, "no admission edge dominates this block and the function has no callers", None)
        lds = []
        for (cb, csa, cbb) in sites:
            h = self.held(cb, csa, cbb, trail)
            if not h[0]:
                return (False, "call site %s in %s is not inside a held region (%s)" % (
                    cb.file_line(cb.term(cbb)["loc"]), env.fname(cb), h[1]), None)
            lds.append(h[2])
        if self._after_release(b, sa, bb, [0]):
            return (False, "after the release of the ticket", lds[0] if lds else None)
        return (True, "all %d call sites are inside held regions" % len(sites), lds[0] if lds else None)


def owner_of(env, e, top):
    """the function an inlined event is attributed to: the innermost caller that is not a method of the counter type"""
    bodies = [c[0] for c in e.info["chain"]] + [e.body]
    # e.body is where the primitive call sits; walk outwards while it is a counter-wrapper method
    cand = list(reversed(bodies))
    for b in cand:
        sa = env.F.impl_self_adt(b) or ""
        if not sa.endswith("::AtomicCounter"):
            return b
    return top


def _ticket(env):
    t = getattr(env, "_ticket", None)
    if t is None:
        t = Ticket(env)
        env._ticket = t
    return t


def receiver_kind(b, F):
    """'ref' | 'mut' | 'value' | None for the receiver of the (root) function of body b"""
    root = F.bodies.get(b.root, b) if b.is_closure else b
    info = root.info or {}
    if not info.get("has_self"):
        return None
    ins = info.get("inputs") or []
    if not ins:
        return None
    t = ins[0]
    if t.get("k") == "ref":
        return "mut" if t.get("mut") else "ref"
    return "value"


# ---------------------------------------------------------------------------------------------------
def rule_ticket(env, shared):
    """TICKET: every access to the wrapped iterator's cell from a `&self` path lies in a held region."""
    T = _ticket(env)
    out = []
    if not T.ok:
        return [Ob("TICKET", "TICKET|anchor", "viol", "-", "ticket implementor not found")]
    for (b, sa) in T.universe:
        rk = receiver_kind(b, env.F)
        for e in T.direct_events(b, sa):
            if e.info["chain"]:
                continue
            if not T.is_cell_get(e):
                continue
            key = "TICKET|%s|cell-access" % env.fname(b)
            loc = e.loc()
            if rk in ("value", "mut"):
                out.append(Ob("TICKET", key + "|exclusive-receiver", "ok", loc,
                              "cell accessed through an exclusive receiver (%s self)" % rk))
                continue
            h = T.held(b, sa, e.bb)
            if h[0]:
                out.append(Ob("TICKET", key, "ok", loc, "cell access inside a held region: " + h[1], True))
            else:
                out.append(Ob("TICKET", key, "viol", loc,
                              "the wrapped iterator's cell is accessed outside a held region (a region entered only "
                              "through the Equal edge of ticket == load(now-serving) and not yet released): " + h[1]))
    return out


def rule_gate(env, shared):
    """GATE (flag form of SKIP): every admission is gated by a load of the sticky end flag taken after the equality
    observation, so that a position counter that wrapped after skip_to_end cannot re-admit anyone."""
    T = _ticket(env)
    out = []
    if not T.ok:
        return [Ob("GATE", "GATE|anchor", "viol", "-", "ticket implementor not found")]

    def done_false(facts):
        for f in facts:
            if f[0] == "flag" and f[2] is False:
                role, adt = T.role_of(f[1])
                if role == "done" and adt == T.adt:
                    return True
        return False
    for (b, sa) in T.universe:
        if b.blocks and receiver_kind(b, env.F) in ("value", "mut"):
            continue
        ctx = env.ctx(b, sa, T.world)
        # (a) cell accesses admitted inside this body
        for e in T.direct_events(b, sa):
            if not (T.is_cell_get(e) or (e.kind == "call" and not e.info["chain"] and e.info.get("inlined")
                                         and any(T.is_cell_get(x) for x in T.direct_events(b, sa)
                                                 if x.info["top_bb"] == e.bb and x.info["chain"]))):
                continue
            tb = e.info["top_bb"]
            if T.admission_fact(ctx, tb) is None:
                continue
            k = "GATE|%s|admission->cell" % env.fname(b)
            if any(o.key == k for o in out):
                continue
            if done_false(block_facts(env.ev, ctx, tb)):
                out.append(Ob("GATE", k, "ok", e.loc(), "admission is gated by the end flag being false", True))
            else:
                out.append(Ob("GATE", k, "viol", e.loc(),
                              "a ticket holder is admitted to the wrapped iterator on `ticket == now-serving` alone; "
                              "the end flag is not consulted on this path, so after skip_to_end (which moves the "
                              "position counter to its maximum) a wrapped-around ticket is served again"))
        # (b) the ticket handed to the caller through the return value (Some(ticket) / true) under an admission
        if b.is_closure:
            continue
        for bb, (okk, gated, why, hands) in sorted(T.handover_sites(b, sa).items()):
            if not (okk and hands):
                continue  # not a hand-over: LIVE.c demands the release on this path
            k = "GATE|%s|admission->return" % env.fname(b)
            if any(o.key == k and o.status == "viol" for o in out):
                continue
            loc = b.file_line(b.term(bb)["loc"])
            private = not (b.info or {}).get("exported") and (b.info or {}).get("container") in ("inherent", "free") \
                and bool([1 for (cb, _cbb) in all_callers(env, b.def_) if cb.def_ != b.def_])
            if gated:
                out.append(Ob("GATE", k, "ok", loc, "ticket is handed out only while the end flag is false", True))
            elif private:
                # a private waiting helper may report `ticket == now-serving` alone: whoever calls it holds the admission
                # through its return value and is judged here in turn — (a) where it touches the wrapped iterator, (b) where
                # it hands the ticket on — and must have consulted the end flag by then
                out.append(Ob("GATE", k, "ok", loc, "private helper: the end flag is demanded of every caller that uses or "
                              "hands on the admission"))
            else:
                out = [o for o in out if o.key != k]
                out.append(Ob("GATE", k, "viol", loc,
                              "the ticket is handed to the caller on `ticket == now-serving` alone; the end flag "
                              "is not consulted, so after skip_to_end a wrapped-around ticket is served again"))
    return out


def rule_ord(env, shared):
    """ORD: (i) admitting load >= Acquire; (ii) publishing RMW >= Release; (iii) no use of the wrapped iterator
    after the release inside one activation."""
    T = _ticket(env)
    out = []
    if not T.ok:
        return [Ob("ORD", "ORD|anchor", "viol", "-", "ticket implementor not found")]
    seen = set()
    for (b, sa) in T.universe:
        evs = T.direct_events(b, sa)
        ctx = env.ctx(b, sa, T.world)
        # (i) loads of SERVING that admit
        for e in evs:
            if e.kind == "atomic" and e.info["op"] == "load":
                role, adt = T.role_of(e.info["place"])
                if not (role == "serving" and adt == T.adt):
                    continue
                own = owner_of(env, e, b)
                if own.def_ != b.def_:
                    continue  # attributed when its owner is analysed as top-level body
                ordn = e.info["orderings"][0] if e.info["orderings"] else None
                k = "ORD.i|%s|load(now-serving)" % env.fname(own)
                if k in seen:
                    continue
                seen.add(k)
                # does this load decide an admission in b? (its Equal edge dominates some block)
                admits = any(T.admission_fact(ctx, bb) is not None for bb in range(len(b.blocks))
                             if not b.blocks[bb]["cleanup"])
                if not admits:
                    out.append(Ob("ORD.i", k + "|non-admitting", "ok", e.loc(),
                                  "load of the now-serving counter that admits nobody (%s)" % ordn))
                    continue
                if ordn in ACQ:
                    out.append(Ob("ORD.i", k, "ok", e.loc(), "admitting load of the now-serving counter is %s" % ordn,
                                  True))
                else:
                    out.append(Ob("ORD.i", k, "viol", e.loc(),
                                  "the load of the now-serving counter that admits the next ticket holder is %s; "
                                  "it must be Acquire or stronger to pair with the previous holder's release, "
                                  "otherwise two consecutive users of the wrapped iterator race" % ordn))
        # (ii) RMWs on SERVING
        for e in evs:
            if e.kind == "atomic" and T.is_release(e):
                role, adt = T.role_of(e.info["place"])
                if role != "serving":
                    continue
                own = owner_of(env, e, b)
                if own.def_ != b.def_:
                    continue
                ordn = e.info["orderings"][0] if e.info["orderings"] else None
                k = "ORD.ii|%s|%s(now-serving)" % (env.fname(own), e.info["op"])
                if k in seen:
                    continue
                seen.add(k)
                if e.info["op"] == "fetch_add" and ordn in REL:
                    out.append(Ob("ORD.ii", k, "ok", e.loc(), "publishing RMW on the now-serving counter is %s" % ordn))
                else:
                    out.append(Ob("ORD.ii", k, "viol", e.loc(),
                                  "the now-serving counter is advanced with %s/%s; the hand-off needs a read-modify-"
                                  "write with Release or stronger (the next holder's Acquire load must see the "
                                  "previous holder's use of the wrapped iterator)" % (e.info["op"], ordn)))
        # (iii) no inner next() after a release in the same activation
        rel = T.release_blocks(b, sa)
        if rel:
            for e in evs:
                if T.is_inner_next(e) or T.is_cell_get(e):
                    tb = e.info["top_bb"]
                    bad = [r for r in rel if r != tb and tb in b.reachable(r)]
                    k = "ORD.iii|%s|use-after-release" % env.fname(b)
                    if bad:
                        out.append(Ob("ORD.iii", k, "viol", e.loc(),
                                      "the wrapped iterator is used on a path after the ticket was released (release "
                                      "in bb%s): another thread may already be using it" % bad))
                    else:
                        if not any(o.key == k for o in out):
                            out.append(Ob("ORD.iii", k, "ok", e.loc(), "no use of the wrapped iterator after release"))
    return out


def _all_callers_pass_true(env, b, pidx):
    callers = [(cb, cbb) for (cb, cbb) in all_callers(env, b.def_) if cb.def_ != b.def_]
    if not callers:
        return False
    for (cb, cbb) in callers:
        cctx = env.ctx(cb, env.F.impl_self_adt(cb), None)
        args = cb.term(cbb)["args"]
        if pidx - 1 >= len(args) or unref(env.ev.operand(cctx, args[pidx - 1])) not in (("const", "true"), ("int", 1)):
            return False
    return True


def rule_sticky(env, shared):
    """STICKY: the completed flag only ever goes up: every store to it has the constant operand true."""
    T = _ticket(env)
    out = []
    if not T.ok:
        return [Ob("STICKY", "STICKY|anchor", "viol", "-", "ticket implementor not found")]
    n = 0
    for b in env.F.non_test_bodies():
        sa = env.F.impl_self_adt(b)
        for e in env.flat_events(b, sa, T.world if sa in (T.adt, T.r.get("puller")) else None):
            if e.info["chain"]:
                continue
            if e.kind == "atomic" and e.info["akind"] == "bool" and e.info["op"] not in ("load",):
                role, adt = T.role_of(e.info["place"])
                # Drop guard: the flag reached through a reference field of a helper struct
                k = "STICKY|%s|%s" % (env.fname(b), e.info["op"])
                n += 1
                if e.info["op"] == "store" and len(e.args) >= 2 and e.args[1] in (("const", "true"), ("int", 1)):
                    out.append(Ob("STICKY", k, "ok", e.loc(), "flag store writes the constant true"))
                elif e.info["op"] == "store" and len(e.args) >= 2 and unref(e.args[1])[0] == "param" and not b.is_closure \
                        and not (b.info or {}).get("exported") and _all_callers_pass_true(env, b, unref(e.args[1])[1]):
                    # a private setter `fn set_completed(&self, v: bool)`: judged at its call sites
                    out.append(Ob("STICKY", k, "ok", e.loc(), "private setter: every caller passes the constant true"))
                else:
                    out.append(Ob("STICKY", k, "viol", e.loc(),
                                  "the end-of-iteration flag is written by %s(%s): it must only ever be set to true, "
                                  "otherwise an iteration that ended can come back to life" % (
                                      e.info["op"], ", ".join(fmt(a) for a in e.args[1:2]))))
    return out


# ---------------------------------------------------------------------------------------------------
def all_callers(env, target_def):
    """(body, bb) call sites of target_def in any non-test body, over all worlds (resolved calls only)"""
    cache = getattr(env, "_callers_cache", None)
    if cache is None:
        cache = {}
        worlds = env.worlds()
        for b in env.F.non_test_bodies():
            sa0 = env.F.impl_self_adt(b)
            for w in ([None] + worlds):
                bnd = env._bind(b, w) if w else None
                sas = [sa0] if sa0 else ([w["iter"]] if w else [None])
                for sa in sas:
                    for bi, t, c in b.calls():
                        d = env.F.resolve_callee(c, sa, bnd)
                        if d:
                            cache.setdefault(d, set()).add((b.def_, bi))
        env._callers_cache = cache
    return [(env.F.bodies[d], bi) for (d, bi) in sorted(cache.get(target_def, ()))]


def exclusive_only(env, b, trail=()):
    """True if b can only run with exclusive access to its receiver: own receiver is `self`/`&mut self`, or every
    caller is such a function."""
    rk = receiver_kind(b, env.F)
    if rk in ("value", "mut"):
        return True
    if b.def_ in trail:
        return False
    root = env.F.bodies.get(b.root, b) if b.is_closure else b
    cs = all_callers(env, root.def_)
    cs = [(cb, bi) for (cb, bi) in cs if cb.def_ != root.def_]
    if not cs:
        return False
    return all(exclusive_only(env, cb, trail + (b.def_,)) for (cb, bi) in cs)


def _crate_closure_param(env, b, sa, e):
    """the callable invoked by event e is a parameter of the crate-private function b, and every call of b passes a closure
    that is created in the crate (`self.with_iter(|it| it.next())`): not a user-supplied callable"""
    if b.is_closure or (b.info or {}).get("exported") or e.kind != "call" or not e.args:
        return False
    f = e.args[0]
    while f[0] in ("ref", "deref"):
        f = f[1]
    if f[0] != "param":
        return False
    callers = [(cb, cbb) for (cb, cbb) in all_callers(env, b.def_) if cb.def_ != b.def_]
    if not callers:
        return False
    for (cb, cbb) in callers:
        cctx = env.ctx(cb, env.F.impl_self_adt(cb) or sa, None)
        args = cb.term(cbb)["args"]
        if f[1] - 1 >= len(args):
            return False
        a = env.ev.operand(cctx, args[f[1] - 1])
        while a[0] == "ref":
            a = a[1]
        if not (a[0] == "agg" and a[1].startswith("closure:")):
            return False
    return True


def rule_cell(env, shared):
    """CELL: raw access to storage behind an UnsafeCell.
    (d) in a function that can run concurrently (`&self`), the pointer from UnsafeCell::get on shared storage is never
        reborrowed mutably (`&mut *p`) outside a held region;
    (c) write-like primitives on storage-derived pointers in such functions;
    (e) no user callable other than the wrapped iterator's `next` runs inside a held region."""
    T = _ticket(env)
    out = []
    ev = env.ev
    n_sites = 0
    for b in env.F.non_test_bodies():
        sa = env.F.impl_self_adt(b)
        world = None
        for w in env.worlds():
            if w["iter"] == sa or w["puller"] == sa:
                world = w
        ctx = env.ctx(b, sa, world)
        for bi, blk in enumerate(b.blocks):
            if blk["cleanup"]:
                continue
            for s in blk["stmts"]:
                if s["k"] != "assign" or s["rv"]["k"] not in ("ref", "rawptr"):
                    continue
                rv = s["rv"]
                pl = rv["place"]
                if not any(e["k"] == "deref" for e in pl["p"]):
                    continue
                base = ev.local(ctx, pl["l"])
                if not any(x[0] == "call" and x[1] == "UnsafeCell::get" for x in subterms(base)):
                    continue
                role, adt = env.R.classify(base)
                if role not in ("cell", "store"):
                    continue
                n_sites += 1
                is_mut = (rv["k"] == "ref" and rv["bk"] == "mut") or (rv["k"] == "rawptr" and "Mut" in rv.get("pk", ""))
                fn = env.fname(b)
                k = "CELL.d|%s|%s-reborrow(%s)" % (fn, "mut" if is_mut else "shared", role)
                loc = b.file_line(s["loc"])
                if any(o.key == k for o in out):
                    continue
                if rv["k"] == "rawptr" or not is_mut:
                    out.append(Ob("CELL.d", k, "ok", loc, "storage behind the cell is reborrowed shared / raw"))
                    continue
                root_t, _fl = place_path(base)
                if root_t == ("param", 1) and not b.is_closure and exclusive_only(env, b):
                    out.append(Ob("CELL.d", k, "ok", loc,
                                  "`&mut` reborrow of the storage in a function that only runs with exclusive access "
                                  "(all callers take `self`/`&mut self`)", True))
                    continue
                if role == "cell" and T.ok and adt == T.adt:
                    h = T.held(b, sa, bi)
                    if h[0]:
                        out.append(Ob("CELL.d", k, "ok", loc, "`&mut` to the wrapped iterator inside a held region: " + h[1],
                                      True))
                        continue
                    why = h[1]
                else:
                    why = "the function takes `&self` and is reachable from pulls of any number of threads"
                out.append(Ob("CELL.d", k, "viol", loc,
                              "`&mut *cell.get()` creates a unique reference to storage shared by all threads calling "
                              "this `&self` function; two simultaneous calls hold aliasing `&mut` (undefined "
                              "behaviour; a retag-write data race): " + why))
    # (e) user callables inside held regions
    if T.ok:
        for (b, sa) in T.universe:
            for e in T.direct_events(b, sa):
                if e.info["chain"]:
                    continue
                user = False
                if e.kind == "indirect_call":
                    user = True
                elif e.kind == "call" and e.callee.trait in ("std::ops::FnOnce", "std::ops::FnMut", "std::ops::Fn") \
                        and e.callee.self_param:
                    user = True
                elif e.kind == "call" and e.callee.trait == "std::clone::Clone" and e.callee.self_param:
                    user = True
                if not user:
                    continue
                h = T.held(b, sa, e.bb)
                k = "CELL.e|%s|user-callable(%s)" % (env.fname(b), e.callee.key if e.callee else "indirect")
                if h[0] and _crate_closure_param(env, b, sa, e):
                    out.append(Ob("CELL.e", k, "ok", e.loc(), "the callable is a parameter of this private helper and every caller "
                                  "passes a closure of the crate (analysed as a body of its own)"))
                    continue
                if h[0]:
                    out.append(Ob("CELL.e", k, "viol", e.loc(),
                                  "a user-supplied callable runs while the ticket is held: it can panic or block with "
                                  "every other puller waiting"))
                else:
                    out.append(Ob("CELL.e", k, "ok", e.loc(), "user callable outside held regions"))
    if n_sites == 0:
        out.append(Ob("CELL.d", "CELL.d|no-sites", "viol", "-", "no raw access to cell-protected storage found: anchor lost"))
    return out
