"""Role discovery: implementors, position counters, lengths, storage, ticket protocol fields.

Anchored only on public API paths (trait and struct names exported by the crate) and std primitives.
Everything else (private helpers, field names) is derived from types and from what the code does.
"""
from facts import adt_of, norm_std, peel_ref
from terms import Evaluator, fmt, subterms


class RoleError(Exception):
    pass


def place_path(t):
    """(root, [(idx,name)...]) of a place-like term, looking through ref/deref/inner/deref-calls."""
    fields = []
    while True:
        k = t[0]
        if k in ("ref", "deref", "inner"):
            t = t[1]
        elif k == "field":
            fields.append((t[2], t[3], t[4] if len(t) > 4 else None))
            t = t[1]
        elif k == "call" and t[1] in ("deref", "UnsafeCell::get", "as_ptr", "as_slice", "ptr_add") and t[2]:
            t = t[2][0]
        elif k == "variant":
            t = t[1]
        else:
            break
    fields.reverse()
    return t, fields


def field_ty(adt, idx):
    v = adt["variants"][0]["fields"]
    return v[idx]["ty"] if idx < len(v) else None


class Roles:
    def __init__(self, F):
        self.F = F
        self.ev = Evaluator(F)
        self.problems = []
        self._find_traits()
        self._find_implementors()

    def _trait(self, name):
        c = [p for p in self.F.traits if p.endswith("::" + name) or p == name]
        if len(c) != 1:
            self.problems.append("anchor missing: trait %s (found %d)" % (name, len(c)))
            return None
        return c[0]

    def _find_traits(self):
        self.T_CON = self._trait("ConcurrentIter")
        self.T_ATOMIC = self._trait("AtomicIter")
        self.T_LEN = self._trait("AtomicIterWithInitialLen")
        self.T_CHUNK = self._trait("BufferedChunk")
        self.T_ITERABLE = self._trait("ConcurrentIterable")
        self.T_INTO = self._trait("IntoConcurrentIter")
        self.T_ITERINTO = self._trait("IterIntoConcurrentIter")

    def method_body(self, trait, name, adt):
        d = self.F.method_impl(trait, name, adt)
        return self.F.bodies.get(d) if d else None

    def _find_implementors(self):
        F = self.F
        self.impl = {}  # adt path -> dict of roles
        self.adaptors = []
        self.known_size = []
        self.ticket = None
        for adt in F.implementors(self.T_CON) if self.T_CON else []:
            a = F.adts.get(adt)
            if a is None:
                continue
            r = {"adt": adt, "name": a["name"], "fields": a["variants"][0]["fields"]}
            self.impl[adt] = r
            fields = r["fields"]
            # an adaptor wraps exactly one inner AtomicIter (a type parameter field) + PhantomData
            tparams = [f for f in fields if f["ty"].get("k") == "param"]
            cells = [f for f in fields if adt_of(f["ty"]) == "std::cell::UnsafeCell"]
            counters = [i for i, f in enumerate(fields) if (adt_of(f["ty"]) or "").endswith("::AtomicCounter")]
            flags = [i for i, f in enumerate(fields) if f["ty"]["s"] in ("std::sync::atomic::AtomicBool",
                                                                           "std::sync::atomic::Atomic<bool>")]
            r["counters"] = counters
            r["flags"] = flags
            if tparams and not counters:
                r["kind"] = "adaptor"
                r["inner_field"] = fields.index(tparams[0])
                self.adaptors.append(adt)
                continue
            # POS: the field returned by AtomicIter::counter
            cb = self.method_body(self.T_ATOMIC, "counter", adt)
            pos = None
            if cb is not None:
                t = self.ev.local(self.ev.ctx(cb), 0)
                root, fl = place_path(t)
                if root == ("param", 1) and fl:
                    pos = fl[0][0]
            r["pos"] = pos
            if pos is None:
                self.problems.append("anchor missing: POS of %s" % adt)
            # storage
            r["cell_fields"] = [fields.index(f) for f in cells]
            r["consuming"] = any("ManuallyDrop" in f["ty"]["s"] for f in cells)
            # LEN term
            lb = self.method_body(self.T_LEN, "initial_len", adt) if self.T_LEN else None
            if lb is not None:
                r["kind"] = "known"
                r["len_term"] = self.ev.local(self.ev.ctx(lb), 0)
                self.known_size.append(adt)
            else:
                r["kind"] = "ticket"
                self.ticket = adt
                others = [c for c in counters if c != pos]
                r["serving"] = others[0] if len(others) == 1 else None
                r["done"] = flags[0] if len(flags) == 1 else None
                gens = [f for f in cells if peel_ref(f["ty"])["args"][0].get("k") == "param"] if cells else []
                r["cell"] = fields.index(gens[0]) if len(gens) == 1 else None
                for k in ("serving", "done", "cell"):
                    if r[k] is None:
                        self.problems.append("anchor missing: %s of %s" % (k, adt))
            # buffered puller
            i = F.trait_impls.get((self.T_CON, adt))
            bi = i["items"].get("BufferedIter") if i else None
            r["puller"] = adt_of(bi["ty"]) if isinstance(bi, dict) and "ty" in bi else None
        for adt in self.adaptors:
            r = self.impl[adt]
            i = F.trait_impls.get((self.T_CON, adt))
            bi = i["items"].get("BufferedIter") if i else None
            r["puller"] = adt_of(bi["ty"]) if isinstance(bi, dict) and "ty" in bi else None

    # ---- term classification helpers -------------------------------------------------------------
    def self_field_path(self, t):
        """fields path if t is a place rooted at the receiver (param 1), else None"""
        root, fl = place_path(t)
        if root == ("param", 1):
            return fl
        return None

    def is_pos_place(self, adt, t):
        fl = self.self_field_path(t)
        r = self.impl.get(adt)
        return bool(fl) and r is not None and fl[0][0] == r.get("pos")

    def is_field_place(self, adt, t, idx):
        fl = self.self_field_path(t)
        return bool(fl) and fl[0][0] == idx

    def classify(self, t):
        """(role, implementor adt) of a place-like term: role in pos/serving/done/cell/store/len-field/other"""
        root, fl = place_path(t)
        for (idx, name, adt) in fl:
            r = self.impl.get(adt)
            if r is None:
                continue
            if idx == r.get("pos"):
                return ("pos", adt)
            if r.get("kind") == "ticket":
                if idx == r.get("serving"):
                    return ("serving", adt)
                if idx == r.get("done"):
                    return ("done", adt)
                if idx == r.get("cell"):
                    return ("cell", adt)
            if idx in r.get("cell_fields", []):
                return ("store", adt)
            if r.get("kind") == "adaptor" and idx == r.get("inner_field"):
                continue
            return ("field:%s" % name, adt)
        return (None, None)

    def summary(self):
        out = {}
        for adt, r in self.impl.items():
            d = {"kind": r["kind"]}
            for k in ("pos", "serving", "done", "cell", "puller", "consuming", "inner_field"):
                if k in r:
                    v = r[k]
                    if isinstance(v, int) and k in ("pos", "serving", "done", "cell", "inner_field"):
                        v = r["fields"][v]["name"]
                    d[k] = v
            if "len_term" in r:
                d["len"] = fmt(r["len_term"])
            out[r["name"]] = d
        return out
