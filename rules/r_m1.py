"""Rules about the reservation mechanism (M1): ONE, PROV, AMT, CLAMP, NONEMPTY, ENDGUARD, ATOM.

For every world (concrete implementor, or adaptor over an inner implementor) and every pull unit
  single   = AtomicIter::fetch_one                (next, next_id_and_value, values, ids_and_values, chunk size 1 loops)
  chunk    = AtomicIter::fetch_n                  (next_chunk)
  buffered = BufferedIter::next + BufferedChunk::pull (buffered_iter, for_each/fold with chunk size > 1)
the unit is evaluated with all crate-local callees inlined for that world, and the shape conditions of DESIGN.md §1.2
are decided on the resulting terms, events and guard facts.
"""
from env import Ob, Ctx
from guards import block_facts, unref, Prover
from terms import fmt, subterms, mk_phi, contains, PURE, callee_model_key
from roles import place_path


def rewrite(t, f):
    """bottom-up rewrite of a term with function f (returns replacement or None)"""
    if not isinstance(t, tuple) or not t or not isinstance(t[0], str):
        return t
    new = []
    for x in t:
        if isinstance(x, tuple) and x and isinstance(x[0], str):
            new.append(rewrite(x, f))
        elif isinstance(x, tuple):
            new.append(tuple(rewrite(y, f) if isinstance(y, tuple) and y and isinstance(y[0], str) else y for y in x))
        else:
            new.append(x)
    t2 = tuple(new)
    r = f(t2)
    return r if r is not None else t2


def slice_view(t):
    """(base, offset) if term t denotes a tail `base[offset..]` of another slice (obtained with `get(offset..)`, indexing by
    `offset..`, or a tail of such a tail); offset is a term, None when t is not a view"""
    t = unref(t)
    while t[0] in ("deref", "ref", "inner"):
        t = unref(t[1])
    inner = None
    if t[0] == "payload":
        x = unref(t[1])
        if x[0] == "call" and x[1] == "slice_get" and len(x[2]) == 2:
            inner = x
    elif t[0] == "call" and t[1] == "index" and len(t[2]) == 2:
        inner = t
    if inner is None:
        return None
    rg = unref(inner[2][1])
    if not (rg[0] == "agg" and rg[1].endswith("ops::RangeFrom::RangeFrom") and len(rg[2]) == 1):
        return None
    lo = unref(rg[2][0])
    base = inner[2][0]
    bv = slice_view(base)
    if bv is not None:
        return bv[0], ("bin", "Add", bv[1], lo)
    return base, lo


def _add(off, x):
    if off is None or off == ("int", 0):
        return x
    if x == ("int", 0):
        return off
    return ("bin", "Add", off, x)


def normalize_accesses(events):
    """Accesses to a tail view of the storage (`s.get(b..)?[..k]`) are re-expressed as accesses to the storage itself
    (`s[b..b+k]`), and the events that merely form such a view are dropped, so that the rules see one shape."""
    import copy
    out = []
    # `s.split_at(k)` hands out `s[..k]` (its second half is a view like `s[k..]`): the access is that of the first half
    ev2 = []
    for e in events:
        if e.kind == "call" and e.info.get("model") == "slice_split_at" and len(e.args) == 2:
            e2 = copy.copy(e)
            e2.info = dict(e.info)
            e2.info["model"] = "index"
            e2.args = (e.args[0], ("agg", "std::ops::RangeTo::RangeTo", (e.args[1],)))
            ev2.append(e2)
        else:
            ev2.append(e)
    events = ev2
    acc = [e for e in events if e.kind == "call" and e.info.get("model") in ("index", "slice_get") and len(e.args) == 2]
    for e in events:
        if e not in acc:
            out.append(e)
            continue
        base, idx = e.args[0], unref(e.args[1])
        me = ("call", e.info["model"], (e.args[0], e.args[1]))
        # a view that another access is made through is not an access of its own
        if idx[0] == "agg" and idx[1].endswith("ops::RangeFrom::RangeFrom"):
            used = False
            for e2 in acc:
                if e2 is not e:
                    v2 = slice_view(e2.args[0])
                    if v2 is not None and any(x == me for x in subterms(e2.args[0])):
                        used = True
            if used:
                continue
        v = slice_view(base)
        off = None
        if v is not None:
            base, off = v
        new_idx = None
        if idx[0] == "agg" and idx[1].endswith("ops::RangeTo::RangeTo") and len(idx[2]) == 1:
            new_idx = ("agg", "std::ops::Range::Range", (off if off is not None else ("int", 0), _add(off, unref(idx[2][0]))))
        elif idx[0] == "agg" and idx[1].endswith("ops::RangeFrom::RangeFrom") and len(idx[2]) == 1:
            new_idx = ("agg", "std::ops::Range::Range", (_add(off, unref(idx[2][0])), ("call", "len", (base,))))
        elif idx[0] == "agg" and idx[1].endswith("ops::Range::Range") and len(idx[2]) == 2 and off is not None:
            new_idx = ("agg", "std::ops::Range::Range", (_add(off, unref(idx[2][0])), _add(off, unref(idx[2][1]))))
        elif idx[0] != "agg" and off is not None:
            new_idx = _add(off, idx)
        if new_idx is None:
            out.append(e)
            continue

        def view_len(x):
            if x[0] == "call" and x[1] == "len" and x[2]:
                vv = slice_view(x[2][0])
                if vv is not None:
                    return ("bin", "Sub", ("call", "len", (vv[0],)), vv[1])
            return None
        new_idx = rewrite(new_idx, view_len)
        e2 = copy.copy(e)
        e2.args = (base, new_idx)
        e2.info = dict(e.info)
        out.append(e2)
    return out


def normalize_range_chunks(events, env):
    """A chunk of a range source that is computed in positions and mapped to values only when it is handed out
    (`(start + b)..(start + e)` with `b..e` positions) is re-expressed as the access `range[b..e]`, so that the rules for
    position extents (PROV / AMT / CLAMP / COMPLETE / NONEMPTY of slices) judge it; the value-space form
    (`bv = b + start; bv..min(bv + n, end)`) keeps its own branches."""
    import copy
    R = env.R

    def pos(t):
        t = unref(t)
        if t[0] == "bin" and t[1] == "Add":
            for p_, s_ in ((t[2], t[3]), (t[3], t[2])):
                s_ = unref(s_)
                if s_[0] == "call" and s_[1] == "conv" and s_[2] and R.classify(s_[2][0])[1] in R.impl:
                    return unref(p_), s_[2][0]
        return None
    out = []
    for e in events:
        if e.kind == "call" and e.info.get("model") == "Iterator::map" and e.args:
            rg = unref(e.args[0])
            if rg[0] == "agg" and rg[1].endswith("Range::Range") and len(rg[2]) == 2:
                a, b = pos(rg[2][0]), pos(rg[2][1])
                if a is not None and b is not None and a[1] == b[1]:
                    e2 = copy.copy(e)
                    e2.info = dict(e.info)
                    e2.info["model"] = "index"
                    e2.info["range_positions"] = True
                    e2.args = (a[1], ("agg", "std::ops::Range::Range", (a[0], b[0])))
                    out.append(e2)
                    continue
        out.append(e)
    return out


def normalize_noop_clamps(events, env, m1):
    """`min(x, L)` where `x <= L` is known at the access (a defensive clamp of an index that the reservation helper has
    already bounded: `let b = b.min(len)`) is x; likewise `max(x, y)` with `x <= y` known is y. Applied to the operands of
    storage accesses, views and range chunks only, with the facts of the access itself."""
    import copy
    out = []
    for e in events:
        acc = (e.kind == "call" and e.info.get("model") in ("index", "slice_get", "ptr_add", "Iterator::map")) or is_view(e)
        if not acc or not any(x[0] == "call" and x[1] in ("min", "max", "saturating_add") for a in e.args if isinstance(a, tuple)
                              for x in subterms(a)):
            out.append(e)
            continue
        p = cprover(m1, env, e)

        def f(x):
            # b (+) (E - b) is E when b <= E (a chunk handed on as (begin, end - begin) and rebuilt as begin + len)
            parts = None
            if x[0] == "call" and x[1] == "saturating_add" and len(x[2]) == 2:
                parts = (x[2][0], x[2][1])
            elif x[0] == "bin" and x[1] == "Add":
                parts = (x[2], x[3])
            if parts:
                for b_, d_ in (parts, parts[::-1]):
                    d_ = unref(d_)
                    if d_[0] == "bin" and d_[1] == "Sub" and m1.canon(unref(d_[3])) == m1.canon(unref(b_)) \
                            and p.le(m1.canon(unref(b_)), m1.canon(unref(d_[2]))):
                        return d_[2]
            if x[0] == "call" and x[1] in ("min", "max") and len(x[2]) == 2:
                a, b = m1.canon(unref(x[2][0])), m1.canon(unref(x[2][1]))
                if a[0] == "int" or b[0] == "int":
                    return None
                # only clamps of a value against something it is *strictly known* not to exceed by a guard fact
                for lo, hi, keep_lo in ((a, b, x[2][0]), (b, a, x[2][1])):
                    known = any(len(g) == 3 and g[0] in ("lt", "le") and m1.canon(unref(g[1])) == lo and m1.canon(unref(g[2])) == hi
                                for g in list(p.facts) + [h for v in p.payload_facts.values() for h in v])
                    if not known and lo[0] == "call" and lo[1] in ("max", "min"):
                        # a bound on a compound value (`max(min(x, L), b) <= L` from `b <= L`): asked of the prover
                        known = p.le(lo, hi)
                    if known:
                        return keep_lo if x[1] == "min" else (x[2][1] if keep_lo is x[2][0] else x[2][0])
            return None
        na = tuple(rewrite(a, f) if isinstance(a, tuple) and a and isinstance(a[0], str) else a for a in e.args)
        if na != tuple(e.args):
            e2 = copy.copy(e)
            e2.info = dict(e.info)
            e2.args = na
            out.append(e2)
        else:
            out.append(e)
    return out


def normalize_views(events, m1):
    """The length of an owning view `{ptr + b, len}` in one form: `E.saturating_sub(b)` is `E - b` (that the difference
    does not underflow is an OVF / CLAMP matter), and a clamp applied twice to the same length is applied once
    (`min(min(x, L), L')` with L, L' the same canonical LEN)."""
    import copy

    def f(x):
        if x[0] == "call" and x[1] == "min" and len(x[2]) == 2:
            for a, l in ((x[2][0], x[2][1]), (x[2][1], x[2][0])):
                a = unref(a)
                if a[0] == "call" and a[1] == "min" and len(a[2]) == 2:
                    lc = m1.canon(unref(l))
                    for y, l2 in ((a[2][0], a[2][1]), (a[2][1], a[2][0])):
                        if m1.canon(unref(l2)) == lc:
                            return ("call", "min", (y, l2))
        return None
    out = []
    for e in events:
        if is_view(e) and len(e.args) >= 2:
            ln = rewrite(unref(e.args[1]), f)
            if ln[0] == "call" and ln[1] == "saturating_sub" and len(ln[2]) == 2:
                ln = ("bin", "Sub", ln[2][0], ln[2][1])
            if ln[0] == "bin" and ln[1] == "Sub":
                # `max(E, b) - b` is the length of the same extent (empty when E <= b)
                mx, sb = unref(ln[2]), unref(ln[3])
                if mx[0] == "call" and mx[1] == "max" and len(mx[2]) == 2:
                    for x, y in ((mx[2][0], mx[2][1]), (mx[2][1], mx[2][0])):
                        if unref(y) == sb:
                            ln = ("bin", "Sub", x, ln[3])
                            break
            if ln != unref(e.args[1]):
                e2 = copy.copy(e)
                e2.info = dict(e.info)
                e2.args = (e.args[0], ln) + tuple(e.args[2:])
                out.append(e2)
                continue
        out.append(e)
    return out


class Unit:
    def __init__(self, m1, world, kind, body, self_adt):
        self.m1 = m1
        self.env = m1.env
        self.world = world
        self.kind = kind
        self.body = body
        self.self_adt = self_adt
        env = self.env
        self.ctx = env.ctx(body, self_adt, world)
        self.bodies = [body]
        st = [body]
        while st:
            b = st.pop()
            for cl in env.F.closures_of.get(b.def_, []):
                self.bodies.append(cl)
                st.append(cl)
        self.events = []
        for b in self.bodies:
            for e in env.flat_events(b, self_adt, world):
                self.events.append(e)
        self.events = normalize_range_chunks(normalize_accesses(self.events), env)
        self.events = normalize_noop_clamps(self.events, env, m1)
        self.events = normalize_views(self.events, m1)
        self.events = normalize_noop_clamps(self.events, env, m1)
        self.label = "%s|%s" % (world["name"], kind)

    def result(self):
        t = self.env.ev.local(self.ctx, 0)
        return self.env.ev.payload(self.ctx, t)

    def reserves(self):
        """distinct reservation terms: fetch_add on a position counter"""
        out = {}
        for e in self.events:
            if e.kind == "atomic" and e.info["op"] in ("fetch_add",):
                role, adt = self.env.R.classify(e.info["place"])
                if role == "pos":
                    term = ("atomic", "fetch_add", e.args[0], e.args[1:], e.ctx.site + ((e.body.def_, e.bb),))
                    out[term] = e
        return out


class M1:
    def __init__(self, env):
        self.env = env
        self.units = []
        F, R = env.F, env.R
        bn = None
        for b in F.non_test_bodies():
            if b.is_closure:
                continue
            # the buffered pull driver: the function that reserves through AtomicIter::progress_and_get_begin_idx on
            # behalf of a BufferedChunk (found by what it calls, not by its name)
            calls = [(c.trait, c.name) for _, _, c in b.calls()]
            if (R.T_ATOMIC, "progress_and_get_begin_idx") in calls and F.impl_self_adt(b) not in R.impl \
                    and any(tr == R.T_CHUNK for tr, _ in calls):
                # (when the reservation sits in a small helper of the driver, the driver is the function that also pulls)
                if bn is None or (R.T_CHUNK, "pull") in calls:
                    bn = b
            elif (R.T_CHUNK, "pull") in calls and F.impl_self_adt(b) not in R.impl:
                # the driver pulls here and reserves through a private helper of its own
                for _bi, _t, c in b.calls():
                    hb = F.bodies.get(c.def_) if (c.local and not c.trait and not c.indirect) else None
                    if hb is not None and F.impl_self_adt(hb) == F.impl_self_adt(b) and any(
                            c2.trait == R.T_ATOMIC and c2.name == "progress_and_get_begin_idx" for _x, _y, c2 in hb.calls()):
                        bn = b
        self.buffered_next = bn
        for w in env.worlds():
            X = w["iter"]
            f1 = R.method_body(R.T_ATOMIC, "fetch_one", X)
            fn = R.method_body(R.T_ATOMIC, "fetch_n", X)
            if f1:
                self.units.append(Unit(self, w, "single", f1, X))
            if fn:
                self.units.append(Unit(self, w, "chunk", fn, X))
            if bn:
                self.units.append(Unit(self, w, "buffered", bn, None))

    # ---- canonical LEN -----------------------------------------------------------------------------
    def base_impl(self, w):
        """the implementor that owns the counter in world w"""
        return w.get("inner") or w["iter"]

    def canon(self, t):
        """rewrite LEN-like subterms of consuming Vec implementors (`vec.len()` of the stored vector and the length
        field captured at construction) to one canonical term; justified by rule CLAMP.ctor"""
        R = self.env.R

        def f(x):
            if x[0] == "call" and x[1] == "len" and x[2]:
                v = slice_view(x[2][0])
                if v is not None:
                    return ("bin", "Sub", f(("call", "len", (v[0],))) or ("call", "len", (v[0],)), v[1])
                role, adt = R.classify(x[2][0])
                if role == "store" and adt and R.impl[adt].get("consuming"):
                    root, fl = place_path(x[2][0])
                    pre = []
                    for (idx, name, a) in fl:
                        if a == adt:
                            break
                        pre.append((idx, name))
                    return ("LEN", adt, root, tuple(pre))
            if x[0] == "field" and len(x) > 4 and x[4] in R.impl:
                adt = x[4]
                r = R.impl[adt]
                lt = r.get("len_term")
                if lt is not None and lt[0] == "field" and lt[2] == x[2] and r.get("consuming"):
                    root, fl = place_path(x)
                    pre = []
                    for (idx, name, a) in fl:
                        if a == adt:
                            break
                        pre.append((idx, name))
                    return ("LEN", adt, root, tuple(pre))
            if x[0] == "call" and x[1] == "conv" and x[2] and x[2][0][0] in ("int",):
                return x[2][0]
            if x[0] == "phi" and len(x[1]) == 2 and ("int", 0) not in x[1]:
                # `match .. { inside => a, _ => L }` with a chosen only where a < L (a <= L) is known: min(a, L)
                for a_, b_ in ((x[1][0], x[1][1]), (x[1][1], x[1][0])):
                    for g in self.env.ev.option_facts.get((x, a_), []):
                        if len(g) == 3 and g[0] in ("lt", "le") and unref(g[1]) == unref(a_) and unref(g[2]) == unref(b_) \
                                and any(len(h) == 3 and h[0] in ("lt", "le") and unref(h[1]) == unref(b_) and unref(h[2]) == unref(a_)
                                        for h in self.env.ev.option_facts.get((x, b_), [])):
                            # (.. and L only where L <= a)
                            return ("call", "min", (f(a_) or a_, f(b_) or b_))
            if x[0] == "phi" and len(x[1]) == 2 and ("int", 0) in x[1]:
                # `match .. { small => L - c, _ => 0 }` with the 0 chosen only where L <= c is known: saturating_sub(L, c)
                o = [y for y in x[1] if y != ("int", 0)]
                if len(o) == 1 and o[0][0] == "bin" and o[0][1] == "Sub":
                    a_, b_ = unref(o[0][2]), unref(o[0][3])
                    for g in self.env.ev.option_facts.get((x, ("int", 0)), []):
                        if len(g) == 3 and g[0] in ("lt", "le") and unref(g[1]) == a_ and unref(g[2]) == b_:
                            return ("call", "saturating_sub", (f(o[0][2]) or o[0][2], f(o[0][3]) or o[0][3]))
            return None
        return rewrite(t, f)

    def len_for_event(self, unit, e):
        """LEN term of the counter-owning implementor as seen from event e's context (None if not known-size)"""
        adt = self.base_impl(unit.world)
        r = self.env.R.impl.get(adt, {})
        if r.get("kind") != "known":
            return None
        return None


def _m1(env):
    m = getattr(env, "_m1", None)
    if m is None:
        m = M1(env)
        env._m1 = m
    return m


def _idx_field(res):
    """(index term, value term, kind) of a Next / NextChunk payload"""
    if res[0] == "agg" and res[1].endswith("Next::Next") and len(res[2]) == 2:
        return res[2][0], res[2][1], "Next"
    if res[0] == "agg" and res[1].endswith("NextChunk::NextChunk") and len(res[2]) == 2:
        return res[2][0], res[2][1], "NextChunk"
    return None, None, None


def begin_forms(ev, ctx, r, lenlike):
    """is term t a legal 'begin index' derived from reservation r without arithmetic?"""
    def ok(t):
        t = unref(t)
        if t == r:
            return True
        if t[0] == "call" and t[1] == "Option::unwrap_or" and len(t[2]) == 2:
            p = ev.payload(ctx, t[2][0])
            if p == r:
                return True
        if t[0] == "phi":
            return all(ok(x) for x in t[1])
        return False
    return ok


# ---------------------------------------------------------------------------------------------------
def rule_one(env, shared):
    """ONE: exactly one reservation (RMW on the position counter) per pull, not inside a cycle, before any access."""
    m = _m1(env)
    out = []
    for u in m.units:
        rs = u.reserves()
        key = "ONE|%s" % u.label
        loc = u.body.file_line()
        if len(rs) != 1:
            locs = ", ".join(e.loc() for e in rs.values())
            out.append(Ob("ONE", key, "viol", loc,
                          "a %s pull of %s performs %d reservations on the position counter (%s); exactly one atomic "
                          "read-modify-write must hand the caller its interval" % (u.kind, u.world["name"], len(rs), locs)))
            continue
        r, e = list(rs.items())[0]
        # which unit body holds it, and is its top block inside a cycle?
        holder = None
        for b in u.bodies:
            for e2 in env.flat_events(b, u.self_adt, u.world):
                if e2 is e:
                    holder = b
        tb = e.info["top_bb"]
        in_cycle = holder is not None and any(tb in c for c in holder.sccs())
        # inner cycles along the chain
        for (cb, cbb, cctx) in e.info["chain"][1:] + (((e.body, e.bb, e.ctx),) if e.info["chain"] else ()):
            if any(cbb in c for c in cb.sccs()):
                in_cycle = True
        if in_cycle:
            out.append(Ob("ONE", key, "viol", e.loc(), "the reservation of a %s pull sits inside a loop: a caller may "
                          "reserve more than one interval per pull" % u.kind))
            continue
        if holder is not u.body:
            out.append(Ob("ONE", key, "viol", e.loc(), "the reservation is made inside a closure of the pull"))
            continue
        out.append(Ob("ONE", key, "ok", e.loc(), "single reservation %s" % fmt(r)[:120], True))
    return out


def _access_operands(env, u):
    """index-like operands of storage accesses in a unit: list of (event, what, term)"""
    R = env.R
    out = []
    base = u.world.get("inner") or u.world["iter"]
    range_store = any("ops::Range<" in f["ty"]["s"] for f in R.impl[base]["fields"])
    for e in u.events:
        if e.kind != "call":
            continue
        mdl = e.info.get("model")
        a = e.args
        if mdl in ("slice_get", "index") and a and R.classify(a[0])[1] not in R.impl:
            continue  # indexing of something that is not an implementor's storage (e.g. a puller's own buffer)
        if mdl == "slice_get" and len(a) == 2:
            out.append((e, "slice.get index", a[1]))
        elif mdl == "index" and len(a) == 2:
            rg = unref(a[1])
            if rg[0] == "agg" and rg[1].endswith("Range::Range"):
                out.append((e, "slice range start", rg[2][0]))
            else:
                out.append((e, "index", rg))
        elif mdl == "ptr_add" and len(a) == 2:
            role, adt = R.classify(a[0])
            if role in ("store", "cell"):
                out.append((e, "pointer offset", a[1]))
        elif mdl == "add" and len(a) == 2:
            # generic Idx addition start + idx (range)
            role, adt = R.classify(a[0])
            if adt is not None:
                x = unref(a[1])
                if x[0] == "call" and x[1] == "conv":
                    x = x[2][0]
                out.append((e, "range value offset", x))
        elif mdl == "Iterator::map" and a and range_store:
            rg = unref(a[0])
            if rg[0] == "agg" and rg[1].endswith("Range::Range"):
                out.append((e, "range chunk start", rg[2][0]))
    return out


def rule_prov(env, shared):
    """PROV: reported indices and every storage access index derive from the reservation without arithmetic."""
    m = _m1(env)
    out = []
    ev = env.ev
    for u in m.units:
        rs = u.reserves()
        if len(rs) != 1:
            continue  # reported by ONE
        r = list(rs.keys())[0]
        res = u.result()
        idx, val, kind = _idx_field(res)
        key = "PROV|%s" % u.label
        loc = u.body.file_line()
        isbegin = begin_forms(ev, u.ctx, r, None)
        if idx is None:
            # a pull whose result the engine cannot decompose: fail closed on role-anchored obligation
            out.append(Ob("PROV", key + "|result", "viol", loc,
                          "cannot establish that the result of the %s pull is Next/NextChunk built from the "
                          "reservation: %s" % (u.kind, fmt(res)[:200])))
            continue
        if isbegin(idx):
            out.append(Ob("PROV", key + "|reported-index", "ok", loc,
                          "%s index is the reserved index itself" % kind, True))
        else:
            out.append(Ob("PROV", key + "|reported-index", "viol", loc,
                          "the index reported by a %s pull of %s is not the reserved index: %s (reservation: %s)" % (
                              u.kind, u.world["name"], fmt(idx)[:160], fmt(r)[:100])))
        # storage accesses
        seen = set()
        accs = _access_operands(env, u)
        base_kind = env.R.impl[m.base_impl(u.world)]["kind"]
        if not accs and base_kind == "known":
            out.append(Ob("PROV", key + "|no-access", "viol", loc,
                          "cannot find where the %s pull of %s takes its elements from the storage (no index / offset derived "
                          "from the reservation is visible): the delivered values are not tied to the reported index" % (
                              u.kind, u.world["name"])))
        for (e, what, t) in accs:
            t0 = unref(t)
            k2 = key + "|" + what
            if k2 in seen:
                continue
            okay = isbegin(t0)
            if not okay and t0[0] == "bin" and t0[1] in ("Add",):
                # the one permitted addition: begin + range.start
                a, b = t0[2], t0[3]
                for x, y in ((a, b), (b, a)):
                    if isbegin(x):
                        yy = unref(y)
                        if yy[0] == "call" and yy[1] == "conv":
                            role, adt = env.R.classify(yy[2][0])
                            if adt is not None:
                                okay = True
            seen.add(k2)
            if okay:
                out.append(Ob("PROV", k2, "ok", e.loc(), "%s is the reserved index" % what, True))
            else:
                out.append(Ob("PROV", k2, "viol", e.loc(),
                              "%s of a %s pull of %s is not the index obtained from the reservation: %s" % (
                                  what, u.kind, u.world["name"], fmt(t0)[:200])))
    return out


def _strip_max(t, isbegin):
    """E = max(E', B) -> E'"""
    if t[0] == "call" and t[1] == "max" and len(t[2]) == 2:
        a, b = t[2]
        if isbegin(b):
            return a, True
        if isbegin(a):
            return b, True
    return t, False


def _extent(t, isbegin):
    """decompose an end term: returns (n_term, clamp_term, plus_kind) for min(B (+) n, L); None if not of that shape"""
    if t[0] == "call" and t[1] == "min" and len(t[2]) == 2:
        for x, l in ((t[2][0], t[2][1]), (t[2][1], t[2][0])):
            x = unref(x)
            if x[0] == "call" and x[1] == "saturating_add" and len(x[2]) == 2:
                a, b = x[2]
                if isbegin(a):
                    return b, l, "saturating"
                if isbegin(b):
                    return a, l, "saturating"
            if x[0] == "bin" and x[1] == "Add":
                a, b = x[2], x[3]
                if isbegin(a):
                    return b, l, "plain"
                if isbegin(b):
                    return a, l, "plain"
    # B + min(n, L - B): the same extent written with the clamp on the amount (B <= L is the underflow obligation of L - B)
    if t[0] == "bin" and t[1] == "Add":
        for x, y in ((t[2], t[3]), (t[3], t[2])):
            y = unref(y)
            if isbegin(x) and y[0] == "call" and y[1] == "min" and len(y[2]) == 2:
                for n_, d in ((y[2][0], y[2][1]), (y[2][1], y[2][0])):
                    d = unref(d)
                    if d[0] == "bin" and d[1] == "Sub" and isbegin(d[3]):
                        return n_, d[2], "inner-min"
    return None


def is_view(e):
    """an event that builds an owning view over storage: Vec::from_raw_parts(ptr, len, cap) or a view struct {ptr, len}"""
    if e.kind == "view":
        return True
    return e.kind == "call" and e.callee is not None and not e.callee.indirect and e.callee.key.endswith("Vec::from_raw_parts") \
        and len(e.args) == 3


def rule_amt(env, shared):
    """AMT (M1): the positions a chunk pull touches lie inside the interval it reserved: the extent is
    min(begin (+) n, L) built from the same n the reservation used (clamped to LEN or not)."""
    m = _m1(env)
    out = []
    ev = env.ev
    for u in m.units:
        if u.kind == "single":
            rs = u.reserves()
            if len(rs) == 1:
                r = list(rs.keys())[0]
                amt = r[3][0] if r[3] else None
                key = "AMT|%s|amount" % u.label
                if amt == ("int", 1):
                    out.append(Ob("AMT", key, "ok", list(rs.values())[0].loc(), "single pull reserves exactly 1"))
                else:
                    out.append(Ob("AMT", key, "viol", list(rs.values())[0].loc(),
                                  "a single pull reserves %s positions but touches exactly one" % fmt(amt)))
            continue
        rs = u.reserves()
        if len(rs) != 1:
            continue
        r, re = list(rs.items())[0]
        k_amt = unref(r[3][0])
        isbegin = begin_forms(ev, u.ctx, r, None)
        # extents: slice range ends, alias view lengths, range chunk ends
        exts = []
        for e in u.events:
            if e.kind != "call" and not is_view(e):
                continue
            mdl = e.info.get("model")
            a = e.args
            if mdl == "index" and len(a) == 2:
                rg = unref(a[1])
                if rg[0] == "agg" and rg[1].endswith("Range::Range"):
                    exts.append((e, "slice range end", rg[2][1], None))
            elif is_view(e):
                exts.append((e, "alias view length", a[1], "len"))
            elif mdl == "Iterator::map" and a and any("ops::Range<" in f["ty"]["s"] for f in
                                                      env.R.impl[m.base_impl(u.world)]["fields"]):
                rg = unref(a[0])
                if rg[0] == "agg" and rg[1].endswith("Range::Range"):
                    exts.append((e, "range chunk end", rg[2][1], rg[2][0]))
        base = m.base_impl(u.world)
        kind = env.R.impl[base]["kind"]
        if kind == "ticket":
            continue  # handled by AMT.pub in r_ticket (publish == reservation)
        key0 = "AMT|%s" % u.label
        if not exts:
            out.append(Ob("AMT", key0 + "|extent", "viol", u.body.file_line(),
                          "cannot find the extent of the storage access of the %s pull of %s (anchor lost)" % (
                              u.kind, u.world["name"])))
            continue
        for (e, what, t, aux) in exts:
            t = unref(t)
            key = key0 + "|" + what
            if any(o.key == key for o in out):
                continue
            n_used = None
            if aux == "len":
                # len' = min(B (+) n, L) - B
                if t[0] == "bin" and t[1] == "Sub" and isbegin(unref(t[3])):
                    ex = _extent(unref(t[2]), isbegin)
                    if ex:
                        n_used = ex[0]
            elif aux is not None:
                # range: end_value = min(bv (+) n, end) with bv = B + start ; possibly phi with bv (empty case)
                bv = unref(aux)
                isbv = lambda x, bv=bv: unref(x) == bv  # noqa
                cands = t[1] if t[0] == "phi" else (t,)
                for c in cands:
                    c = unref(c)
                    if c == bv:
                        continue
                    c, _ = _strip_max(c, isbv)
                    ex = _extent(unref(c), isbv)
                    if ex:
                        n_used = ex[0]
                    else:
                        n_used = None
                        break
            else:
                t1, _ = _strip_max(t, isbegin)
                ex = _extent(unref(t1), isbegin)
                if ex:
                    n_used = ex[0]
            if n_used is None:
                out.append(Ob("AMT", key, "viol", e.loc(),
                              "%s of the %s pull of %s is not of the form min(begin + n, LEN): %s — cannot establish "
                              "that the touched positions lie inside the reserved interval" % (
                                  what, u.kind, u.world["name"], fmt(t)[:200])))
                continue
            n_used = unref(n_used)
            same = (k_amt == n_used) or (k_amt[0] == "call" and k_amt[1] == "min" and n_used in [unref(x) for x in k_amt[2]])
            if same:
                out.append(Ob("AMT", key, "ok", e.loc(),
                              "extent min(begin+n, LEN) uses the reserved amount n = %s" % fmt(n_used)[:80], True))
            else:
                out.append(Ob("AMT", key, "viol", e.loc(),
                              "the %s pull of %s reserves %s positions but its %s is computed from %s: it touches "
                              "positions it did not reserve, or reserves positions it never delivers" % (
                                  u.kind, u.world["name"], fmt(k_amt)[:100], what, fmt(n_used)[:100])))
    return out


# ---------------------------------------------------------------------------------------------------
def unit_obj(u):
    """place term of the counter-owning implementor object, derived from the reservation's counter place"""
    rs = u.reserves()
    if len(rs) != 1:
        return None
    r = list(rs.keys())[0]
    t = unref(r[2])
    R = u.env.R
    # walk down the field chain until the field that belongs to an implementor (the POS field); its base is the object
    while t[0] == "field":
        if len(t) > 4 and t[4] in R.impl and t[2] == R.impl[t[4]].get("pos"):
            return t[1]
        t = t[1]
    return None


def subst_self(t, obj):
    """LEN term written over `arg1` (a reference to the implementor) -> over the object place term obj"""
    def f(x):
        if x == ("deref", ("param", 1)):
            return obj
        if x == ("param", 1):
            return ("ref", obj)
        return None
    return rewrite(t, f)


def unit_len(u):
    m = u.m1
    base = m.base_impl(u.world)
    r = u.env.R.impl.get(base, {})
    lt = r.get("len_term")
    if lt is None:
        return None
    obj = unit_obj(u)
    if obj is None:
        return None
    t = subst_self(lt, obj)
    # normalise `*&x`
    def f(x):
        if x[0] == "deref" and x[1][0] == "ref":
            return x[1][1]
        return None
    return rewrite(t, f)


class CProver(Prover):
    """Prover over canonicalised terms, with the lemma  a != max(m, a)  =>  a < m."""

    def _lt(self, a, b, depth):
        if Prover._lt(self, a, b, depth):
            return True
        for f in self.facts:
            if f[0] == "ne" and len(f) == 3:
                for x, y in ((f[1], f[2]), (f[2], f[1])):
                    if x == a and y[0] == "call" and y[1] == "max" and len(y[2]) == 2:
                        for m_, o in ((y[2][0], y[2][1]), (y[2][1], y[2][0])):
                            if o == a and self.le(m_, b, depth + 1):
                                return True
        return False


def elim_noop_clamps(facts):
    """facts with `min(x, L)` replaced by x (and `max(x, y)` by y) wherever another fact of the same set says x < L / x <= L
    (x <= y): the guard facts of a block often mention a defensively clamped copy of a value they also bound"""
    order = {(unref(f[1]), unref(f[2])) for f in facts if len(f) == 3 and f[0] in ("lt", "le")
             and isinstance(f[1], tuple) and isinstance(f[2], tuple)}
    if not order:
        return facts

    def g(x):
        if x[0] == "call" and x[1] in ("min", "max") and len(x[2]) == 2:
            a, b = unref(x[2][0]), unref(x[2][1])
            if (a, b) in order:
                return x[2][0] if x[1] == "min" else x[2][1]
            if (b, a) in order:
                return x[2][1] if x[1] == "min" else x[2][0]
        return None
    out = []
    for f in facts:
        nf = tuple(rewrite(x, g) if isinstance(x, tuple) and x and isinstance(x[0], str) else x for x in f)
        out.append(nf)
        if nf != f:
            out.append(f)
    return out


def cprover(m, env, e, extra=()):
    def cf(f):
        return tuple(m.canon(x) if isinstance(x, tuple) and x and isinstance(x[0], str) else x for x in f)
    from guards import derive_satsub
    facts = elim_noop_clamps(derive_satsub([cf(f) for f in env.event_facts(e)] + [cf(f) for f in extra]))
    pf = {}
    for k, v in env.ev.payload_facts.items():
        pf[m.canon(k)] = [cf(f) for f in v]
    of = {}
    for k, v in env.ev.option_facts.items():
        of[(m.canon(k[0]), m.canon(k[1]))] = [cf(f) for f in v]
    return CProver(facts, env.ev, e.ctx, payload_facts=pf, option_facts=of)


def storage_len(m, env, ptr):
    """canonical LEN of the storage a raw pointer term points into"""
    R = env.R
    role, adt = R.classify(ptr)
    if adt is None or adt not in R.impl:
        return None
    lt = R.impl[adt].get("len_term")
    if lt is None:
        return None
    if lt[0] in ("cparam", "int"):
        return lt
    root, fl = place_path(ptr)
    pre = []
    for (idx, name, a) in fl:
        if a == adt:
            break
        pre.append((idx, name))
    if lt[0] == "field":
        return ("LEN", adt, root, tuple(pre))
    return None


def rule_clamp(env, shared):
    """CLAMP: every storage access is in bounds by construction."""
    m = _m1(env)
    out = []
    ev = env.ev
    for u in m.units:
        base = m.base_impl(u.world)
        if env.R.impl[base]["kind"] != "known":
            continue
        rs = u.reserves()
        if len(rs) != 1:
            continue
        r = list(rs.keys())[0]
        isbegin = begin_forms(ev, u.ctx, r, None)
        key0 = "CLAMP|%s" % u.label
        for e in u.events:
            if e.kind != "call" and not is_view(e):
                continue
            mdl = e.info.get("model")
            a = e.args
            if mdl == "slice_get" and len(a) == 2 and env.R.classify(a[0])[1] in env.R.impl:
                k = key0 + "|slice.get"
                if not any(o.key == k for o in out):
                    out.append(Ob("CLAMP", k, "ok", e.loc(), "bounds-checked by slice::get (returns None out of bounds)"))
            elif mdl == "index" and len(a) == 2 and env.R.classify(a[0])[1] in env.R.impl:
                rg = unref(a[1])
                k = key0 + "|slice[begin..end]"
                if any(o.key == k for o in out):
                    continue
                if not (rg[0] == "agg" and rg[1].endswith("Range::Range")):
                    out.append(Ob("CLAMP", k, "viol", e.loc(), "storage is indexed by something that is not begin..end: %s"
                                  % fmt(rg)[:120]))
                    continue
                B, E = m.canon(unref(rg[2][0])), m.canon(unref(rg[2][1]))
                p = cprover(m, env, e)
                L = m.canon(("call", "len", (a[0],)))
                # len of the very slice being indexed
                L2 = ("call", "len", (a[0],))
                if e.info.get("range_positions"):
                    # positions of a range source (normalize_range_chunks): the bound is the length of the range
                    ul = unit_len(u)
                    L = L2 = m.canon(ul) if ul is not None else L
                ok1 = p.le(B, E)
                ok2 = p.le(E, L) or p.le(E, L2)
                if ok1 and ok2:
                    out.append(Ob("CLAMP", k, "ok", e.loc(), "begin <= end <= len entailed: end = %s" % fmt(E)[:100], True))
                else:
                    out.append(Ob("CLAMP", k, "viol", e.loc(),
                                  "cannot establish begin <= end <= len for the slice access of the %s pull of %s "
                                  "(begin<=end: %s, end<=len: %s); end = %s — the access can panic or, unclamped, "
                                  "reach beyond the source" % (u.kind, u.world["name"], ok1, ok2, fmt(E)[:160])))
            elif mdl == "ptr_add" and len(a) == 2 and env.R.classify(a[0])[0] in ("store",):
                off = m.canon(unref(a[1]))
                L = storage_len(m, env, a[0])
                p = cprover(m, env, e)
                if u.kind == "single":
                    k = key0 + "|ptr.add(i):i<len"
                    if any(o.key == k for o in out):
                        continue
                    if L is not None and p.lt(off, L):
                        out.append(Ob("CLAMP", k, "ok", e.loc(), "move-out index < LEN entailed by the dominating guard",
                                      True))
                    else:
                        out.append(Ob("CLAMP", k, "viol", e.loc(),
                                      "cannot establish index < LEN for the raw element read of %s: index %s, LEN %s — "
                                      "an unguarded ptr.add(i).read() moves out of memory beyond the collection" % (
                                          u.world["name"], fmt(off)[:100], fmt(L) if L else "?")))
                else:
                    k = key0 + "|ptr.add(begin):begin<=len"
                    if any(o.key == k for o in out):
                        continue
                    if L is not None and p.le(off, L):
                        out.append(Ob("CLAMP", k, "ok", e.loc(), "chunk view begins inside the storage", True))
                    else:
                        out.append(Ob("CLAMP", k, "viol", e.loc(),
                                      "cannot establish begin <= LEN for the chunk view of %s (begin %s)" % (
                                          u.world["name"], fmt(off)[:120])))
            elif is_view(e):
                k = key0 + "|view:begin+len<=LEN"
                if any(o.key == k for o in out):
                    continue
                ln = m.canon(unref(a[1]))
                L = storage_len(m, env, a[0])
                p = cprover(m, env, e)
                good = False
                why = ""
                if ln[0] == "bin" and ln[1] == "Sub":
                    minu, sub = ln[2], ln[3]
                    # pointer offset of the view
                    pt = unref(a[0])
                    off = None
                    for x in subterms(pt):
                        if x[0] == "call" and x[1] == "ptr_add":
                            off = m.canon(unref(x[2][1]))
                            break
                    if off is not None and off == sub and L is not None and p.le(minu, L) and p.le(sub, minu):
                        good = True
                    else:
                        why = "offset=%s subtrahend=%s end<=LEN:%s begin<=end:%s" % (
                            fmt(off)[:60] if off else None, fmt(sub)[:60], L is not None and p.le(minu, L), p.le(sub, minu))
                if good:
                    out.append(Ob("CLAMP", k, "ok", e.loc(), "alias view [begin, min(begin+n, LEN)) lies inside the storage",
                                  True))
                else:
                    out.append(Ob("CLAMP", k, "viol", e.loc(),
                                  "cannot establish that the chunk view of %s stays inside the storage: len = %s (%s)" % (
                                      u.world["name"], fmt(ln)[:160], why)))
    return out


def rule_endguard(env, shared):
    """ENDGUARD: an element / a non-empty chunk is produced only under `reserved index < LEN` (on the index itself,
    never on a derived value that can wrap)."""
    m = _m1(env)
    out = []
    ev = env.ev
    for u in m.units:
        base = m.base_impl(u.world)
        if env.R.impl[base]["kind"] != "known":
            continue
        rs = u.reserves()
        if len(rs) != 1:
            continue
        r, re = list(rs.items())[0]
        L = unit_len(u)
        key = "ENDGUARD|%s" % u.label
        if L is None:
            out.append(Ob("ENDGUARD", key, "viol", u.body.file_line(), "cannot determine LEN for %s" % u.world["name"]))
            continue
        Lc = m.canon(L)
        rc = m.canon(r)
        if u.kind == "single":
            # every access event must be std-guarded or under r < LEN
            done = False
            for (e, what, t) in _access_operands(env, u):
                if e.info.get("model") == "slice_get":
                    out.append(Ob("ENDGUARD", key, "ok", e.loc(), "slice::get yields Some only for index < len"))
                    done = True
                    break
                p = cprover(m, env, e)
                if p.lt(rc, Lc):
                    out.append(Ob("ENDGUARD", key, "ok", e.loc(), "element produced only under reserved index < LEN", True))
                else:
                    out.append(Ob("ENDGUARD", key, "viol", e.loc(),
                                  "a single pull of %s produces an element without the guard `reserved index < LEN` on "
                                  "the index itself (LEN = %s); a guard on a derived value can wrap around and revive "
                                  "elements after the end" % (u.world["name"], fmt(Lc)[:100])))
                done = True
                break
            if not done:
                out.append(Ob("ENDGUARD", key, "viol", u.body.file_line(), "no storage access found in the single pull of %s"
                              % u.world["name"]))
        else:
            # the begin index handed on is the payload of the reservation helper: it must carry the fact r < LEN
            pf = [tuple(m.canon(x) if isinstance(x, tuple) else x for x in f) for f in ev.payload_facts.get(r, [])]
            if any(f[0] == "lt" and f[1] == rc and CProver([], ev, u.ctx).le(f[2], Lc) for f in pf):
                out.append(Ob("ENDGUARD", key, "ok", re.loc(), "reservation is handed on only under reserved index < LEN",
                              True))
            else:
                out.append(Ob("ENDGUARD", key, "viol", re.loc(),
                              "the %s pull of %s continues with a reserved begin index that is not known to be < LEN "
                              "(facts: %s): chunks can be produced at or after the end" % (
                                  u.kind, u.world["name"], [(f[0], fmt(f[1])[:40], fmt(f[2])[:40]) for f in pf])))
    return out


# ---------------------------------------------------------------------------------------------------
def _some_blocks(env, b, ctx, adt_suffix="NextChunk::NextChunk"):
    """(bb, stmt, agg term) for `Some(NextChunk{..})`-like constructions: blocks that build the chunk struct"""
    out = []
    for bi, blk in enumerate(b.blocks):
        if blk["cleanup"]:
            continue
        for s in blk["stmts"]:
            if s["k"] == "assign" and s["rv"]["k"] == "aggregate" and s["rv"].get("ak") == "adt" \
                    and ("%s::%s" % (s["rv"]["adt"], s["rv"]["variant_name"])).endswith(adt_suffix):
                out.append((bi, s, env.ev.rvalue(ctx, s["rv"])))
    return out


def rule_nonempty(env, shared):
    """NONEMPTY: a chunk pull that returns Some returns a non-empty chunk."""
    m = _m1(env)
    out = []
    ev = env.ev
    R = env.R
    for u in m.units:
        if u.kind == "single":
            continue
        base = m.base_impl(u.world)
        kind = R.impl[base]["kind"]
        rs = u.reserves()
        if len(rs) != 1:
            continue
        r = list(rs.keys())[0]
        isbegin = begin_forms(ev, u.ctx, r, None)
        key = "NONEMPTY|%s" % u.label
        if u.world.get("inner"):
            # adaptors rebuild the chunk of the inner pull; FWD decides that they forward — nothing to add here
            continue
        if u.kind == "chunk":
            # the block(s) of the unit body that build NextChunk
            blocks = []
            for ub in u.bodies:
                uctx = env.ctx(ub, u.self_adt, u.world)
                for (bi, s, agg) in _some_blocks(env, ub, uctx):
                    blocks.append((bi, s, agg, ub, uctx))
            if not blocks:
                # built by a constructor function of the crate (`NextChunk::new(begin, values)`): judged on the value the pull
                # returns, at its return
                res_ = u.result()
                rets_ = [x for x in u.body.exits() if u.body.term(x)["k"] == "return" and not u.body.blocks[x]["cleanup"]]
                if res_[0] == "agg" and res_[1].endswith("NextChunk::NextChunk") and rets_:
                    blocks.append((rets_[0], {"loc": u.body.term(rets_[0])["loc"]}, res_, u.body, u.ctx))
            if not blocks:
                out.append(Ob("NONEMPTY", key, "viol", u.body.file_line(), "cannot find where the chunk pull of %s builds its "
                              "NextChunk" % u.world["name"]))
                continue
            ret_ok = None
            if kind == "ticket":
                # judged on the return value as well (`(values.len() > 0).then_some(NextChunk {..})` builds the struct before
                # the test): every way of returning Some carries `len(values) != 0` for the values it hands out
                from guards import local_cases

                def coll(t):
                    t = unref(t)
                    while t[0] in ("ref", "deref") or (t[0] == "call" and t[1] == "into_iter" and t[2]):
                        t = unref(t[1] if t[0] != "call" else t[2][0])
                    return t
                somes = [c for c in (local_cases(ev, u.ctx, 0, True) or []) if c[0] == "Some"]
                ret_ok = bool(somes)
                for (_K, fs, v) in somes:
                    pv = ev.payload(u.ctx, v) if v is not None else None
                    vals = coll(pv[2][1]) if (pv is not None and pv[0] == "agg" and pv[1].endswith("NextChunk::NextChunk")
                                              and len(pv[2]) == 2) else None
                    okc = False
                    for f in fs:
                        if len(f) != 3:
                            continue
                        x = None
                        if f[0] == "ne" and f[2] == ("int", 0):
                            x = f[1]
                        elif f[0] == "lt" and f[1] == ("int", 0):
                            x = f[2]
                        if x is not None and x[0] == "call" and x[1] == "len" and x[2] and vals is not None \
                                and coll(x[2][0]) == vals:
                            okc = True
                    if not okc:
                        ret_ok = False
            for (bi, s, agg, ub, uctx) in blocks:
                loc = ub.file_line(s["loc"])
                facts = elim_noop_clamps([tuple(m.canon(x) if isinstance(x, tuple) else x for x in f)
                                          for f in block_facts(ev, uctx, bi)])
                good = False
                why = ""
                if kind == "ticket":
                    for f in facts:
                        if f[0] == "ne" and len(f) == 3 and f[2] == ("int", 0) and f[1][0] == "call" and f[1][1] == "len":
                            good = True
                            why = "built only when the collected buffer is not empty"
                    if not good and ret_ok:
                        good = True
                        why = "returned only when the values handed out are not empty"
                else:
                    B = m.canon(unref(agg[2][0]))
                    # the actual extent end(s) of the access
                    ends = []
                    for e in u.events:
                        if e.kind != "call" and not is_view(e):
                            continue
                        mdl = e.info.get("model")
                        a = e.args
                        if mdl == "index" and len(a) == 2 and R.classify(a[0])[1] in R.impl:
                            rg = unref(a[1])
                            if rg[0] == "agg":
                                ends.append(m.canon(unref(rg[2][1])))
                        elif is_view(e):
                            ln = m.canon(unref(a[1]))
                            if ln[0] == "bin" and ln[1] == "Sub":
                                ends.append(ln[2])
                        elif mdl == "Iterator::map" and a:
                            rg = unref(a[0])
                            if rg[0] == "agg" and rg[1].endswith("Range::Range"):
                                ends.append(("range", m.canon(unref(rg[2][0])), m.canon(unref(rg[2][1]))))
                    p = CProver(facts, ev, u.ctx, payload_facts={m.canon(k): [tuple(m.canon(x) if isinstance(x, tuple) else x
                                                                                  for x in f) for f in v]
                                                                  for k, v in ev.payload_facts.items()})
                    # judged on the return value too (`(values.len() > 0).then_some(NextChunk {..})` builds the struct before
                    # the test): what is known on every way of returning Some
                    if not any((p.lt(B, E) if E[0] != "range" else p.lt(E[1], E[2])) for E in ends):
                        from guards import local_cases, class_facts
                        somes = [c for c in (local_cases(ev, u.ctx, 0, True) or []) if c[0] == "Some"]
                        if somes:
                            from guards import derive_satsub
                            cf_ = derive_satsub([tuple(m.canon(x) if isinstance(x, tuple) else x for x in f)
                                                 for f in class_facts(somes, "Some")])
                            extra = []
                            for f in cf_:
                                # 0 < E - B (the length of the view that is handed out) says B < E
                                if len(f) == 3 and f[0] == "lt" and f[1] == ("int", 0):
                                    x = f[2]
                                    while x[0] == "call" and x[1] == "len" and x[2]:
                                        x = unref(x[2][0])
                                    if x[0] == "agg" and len(x[2]) == 2 and not x[1].endswith("Range::Range"):
                                        x = m.canon(unref(x[2][1]))  # a view struct {ptr, len}
                                    if x[0] == "bin" and x[1] == "Sub":
                                        extra.append(("lt", m.canon(unref(x[3])), m.canon(unref(x[2]))))
                            facts = facts + [f for f in cf_ + extra if f not in facts]
                            p = CProver(facts, ev, u.ctx, payload_facts=p.payload_facts)
                    for E in ends:
                        if E[0] == "range":
                            bv, evl = E[1], E[2]
                            if p.lt(bv, evl):
                                good = True
                                why = "begin value < end value of the handed-out range is entailed"
                            # fact ne(B, evl - s) with bv = B + s
                            for f in facts:
                                if f[0] == "ne" and len(f) == 3:
                                    for x, y in ((f[1], f[2]), (f[2], f[1])):
                                        if x == B and y[0] == "bin" and y[1] == "Sub" and y[2] == evl and bv[0] == "bin" \
                                                and bv[1] == "Add" and y[3] in (bv[2], bv[3]) and B in (bv[2], bv[3]):
                                            good = True
                                            why = "begin != end index, where end value >= begin value by construction"
                        else:
                            # E may be a clamped version of the end used in the guard: strip `max(., B)`
                            if p.lt(B, E):
                                good = True
                                why = "begin < end of the accessed extent is entailed"
                            else:
                                # guard on max(M, B) with the access using M clamped by an equal length
                                for f in facts:
                                    if f[0] == "ne" and len(f) == 3:
                                        for x, y in ((f[1], f[2]), (f[2], f[1])):
                                            if x == B and y[0] == "call" and y[1] == "max" and E in y[2]:
                                                good = True
                                                why = "begin != max(end, begin) entails begin < end"
                if good:
                    out.append(Ob("NONEMPTY", key, "ok", loc, why, True))
                else:
                    out.append(Ob("NONEMPTY", key, "viol", loc,
                                  "the one-shot chunk pull of %s can return Some with an empty chunk: no guard entails "
                                  "begin < end of the extent it hands out" % u.world["name"]))
        else:
            # buffered: the puller's `pull` decides; it runs as continuation of the reservation helper
            pull = R.method_body(R.T_CHUNK, "pull", u.world["puller"])
            if pull is None:
                out.append(Ob("NONEMPTY", key, "viol", "-", "puller of %s not found" % u.world["name"]))
                continue
            if kind == "ticket":
                continue  # EXACT decides the ticket puller
            # find the event(s) in the unit that produce the chunk extent and require begin < LEN there
            L = unit_len(u)
            Lc = m.canon(L) if L is not None else None
            rc = m.canon(r)
            found = False
            for e in u.events:
                if e.kind != "call" and not is_view(e):
                    continue
                mdl = e.info.get("model")
                a = e.args
                is_ext = (mdl == "index" and len(a) == 2 and R.classify(a[0])[1] in R.impl) or \
                    is_view(e) or \
                    (mdl == "Iterator::map" and a and unref(a[0])[0] == "agg" and unref(a[0])[1].endswith("Range::Range"))
                if not is_ext:
                    continue
                found = True
                p = cprover(m, env, e)
                if Lc is not None and p.lt(rc, Lc):
                    out.append(Ob("NONEMPTY", key, "ok", e.loc(),
                                  "buffered chunk is built only under begin < LEN (and chunk size >= 1 by ZERO.a)", True))
                else:
                    # range: guard on the value image begin+start < end
                    okv = False
                    for f in p.facts:
                        if f[0] == "lt" and len(f) == 3 and f[1][0] == "bin" and f[1][1] == "Add" and rc in (f[1][2], f[1][3]):
                            okv = True
                    if okv:
                        out.append(Ob("NONEMPTY", key, "ok", e.loc(),
                                      "buffered chunk is built only under begin value < end (and chunk size >= 1)", True))
                    else:
                        out.append(Ob("NONEMPTY", key, "viol", e.loc(),
                                      "the buffered pull of %s can build an empty chunk: begin < LEN is not known where the "
                                      "extent is formed" % u.world["name"]))
                break
            if not found:
                out.append(Ob("NONEMPTY", key, "viol", pull.file_line(), "cannot find the extent of the buffered pull of %s"
                              % u.world["name"]))
    return out


def _same_counter(a, b):
    """the counter local seen from inside the fill loop (`phi(0 | cyclic + 1)`) and as the value handed to the chunk"""
    if a == b:
        return True
    def opts(t):
        return set(t[1]) if t[0] == "phi" else {t}
    oa, ob = opts(a), opts(b)
    inc = lambda s_: any(x[0] == "bin" and x[1] == "Add" and x[3] == ("int", 1) for x in s_)
    # (the start value is 0, or 1 when the first element is pulled and stored before the loop)
    return any(z in oa and z in ob for z in (("int", 0), ("int", 1))) and inc(oa) and inc(ob)


def _strip_place(t):
    while t[0] in ("ref", "deref", "inner") or (t[0] == "call" and t[1] in ("deref_mut", "deref", "as_mut_slice", "as_slice")
                                                 and t[2]):
        t = t[1] if t[0] != "call" else t[2][0]
    return t


def _enumerated_store(env, pull, ctx, bi, inc_stmt, fields):
    """`for slot in buf.iter_mut() { ..; *slot = Some(x); filled += 1 }`: the slot written in the round that increments the
    counter from k to k + 1 is buf[k], provided that (1) `slot` is what the one `IterMut::next` call of the loop returned in
    this round, over an iterator created outside the loop from the very buffer the chunk is built on, (2) the counter is
    incremented only here, and (3) every round that continues the loop has passed the increment (no `continue` around it)."""
    ev = env.ev
    loops = [(h, lb) for (h, lb) in pull.natural_loops() if bi in lb]
    if not loops:
        return False
    h, lb = min(loops, key=lambda x: len(x[1]))
    dom = pull.dominators()
    cnt = inc_stmt["rv"]["a"]["place"]["l"] if inc_stmt["rv"]["a"]["k"] in ("copy", "move") else None
    if cnt is None:
        return False
    # (2) assignments of the counter inside the loop: only the result of this addition
    tmp = inc_stmt["place"]["l"]
    for x in lb:
        for st in pull.blocks[x]["stmts"]:
            if st["k"] == "assign" and st["place"]["l"] == cnt and not st["place"]["p"]:
                rv = st["rv"]
                src = rv.get("op", {}).get("place", {}) if rv["k"] == "use" else {}
                if not (src.get("l") == tmp):
                    return False
    # (3) the increment dominates every source of a back edge of this loop
    for (src, dst) in pull.back_edges():
        if dst == h and src in lb and not (bi == src or bi in dom.get(src, set())):
            return False
    # (1) the store
    its = [x for x in lb if pull.callee(x) is not None and not pull.callee(x).indirect
           and pull.callee(x).trait == "std::iter::Iterator" and pull.callee(x).name == "next"
           and ((pull.callee(x).self_ty or {}).get("adt") == "std::slice::IterMut")]
    if len(its) != 1:
        return False
    bufs = {_strip_place(unref(f)) for f in fields}
    for d in (dom.get(bi, set()) | {bi}) & set(lb):
        for st in pull.blocks[d]["stmts"]:
            if st is inc_stmt and d == bi:
                break
            if st["k"] != "assign" or [e["k"] for e in st["place"]["p"]] != ["deref"]:
                continue
            slot = unref(ev.local(ctx, st["place"]["l"]))
            if slot[0] != "payload":
                continue
            call = unref(slot[1])
            if not (call[0] == "ret" and call[1] == "std::iter::Iterator::next" and call[3] and call[3][-1] == (pull.def_, its[0])):
                continue
            it = _strip_place(unref(call[2][0]))
            if it[0] == "call" and it[1] == "into_iter" and it[2]:
                it = unref(it[2][0])
            if not (it[0] == "ret" and it[1] == "std::slice::iter_mut" and it[2] and it[3]
                    and it[3][-1][0] == pull.def_ and it[3][-1][1] not in lb):
                continue
            if _strip_place(unref(it[2][0])) not in bufs:
                continue
            val = unref(ev.rvalue(ctx, st["rv"]))
            if val[0] == "agg" and val[1].endswith("Option::Some") and val[2] and "Iterator::next" in fmt(val[2][0]) \
                    and unref(val[2][0]) != slot:
                return True
    return False


def rule_exact(env, shared):
    """EXACT: the buffered chunk of the wrapper over an arbitrary iterator yields exactly the elements pulled for this
    chunk: slots 0..filled of the re-used buffer, `filled` counting one stored element per increment, iteration under
    consumed < filled, len() = filled - consumed."""
    m = _m1(env)
    out = []
    R, F, ev = env.R, env.F, env.ev
    if R.ticket is None:
        return [Ob("EXACT", "EXACT|anchor", "viol", "-", "ticket implementor not found")]
    w = env.world_of(R.ticket)
    pull = R.method_body(R.T_CHUNK, "pull", w["puller"])
    if pull is None:
        return [Ob("EXACT", "EXACT|anchor", "viol", "-", "ticket puller not found")]
    ctx = env.ctx(pull, w["puller"], w)
    res = ev.payload(ctx, ev.local(ctx, 0))
    loc = pull.file_line()
    if not (res[0] == "agg" and "::" in res[1] and len(res[2]) >= 3):
        return [Ob("EXACT", "EXACT|chunk-struct", "viol", loc, "cannot identify the chunk iterator built by the ticket puller: %s"
                   % fmt(res)[:120])]
    ci_adt = res[1].rsplit("::", 1)[0]
    fields = res[2]
    filled = [i for i, t in enumerate(fields) if t[0] == "phi" and (("int", 0) in t[1] or ("int", 1) in t[1])
              and any(x[0] == "bin" and x[1] == "Add" and x[3] == ("int", 1) for x in t[1])]
    consumed = [i for i, t in enumerate(fields) if t == ("int", 0)]
    if len(filled) != 1 or len(consumed) != 1:
        return [Ob("EXACT", "EXACT|chunk-struct", "viol", loc,
                   "the chunk iterator of the ticket puller is not built as {buffer, filled = loop counter, consumed = 0}: %s"
                   % fmt(res)[:160])]
    fi, ci = filled[0], consumed[0]
    start_one = ("int", 0) not in fields[fi][1]
    out.append(Ob("EXACT", "EXACT|chunk-struct", "ok", loc, "chunk = {buffer, filled: loop counter, consumed: 0}", True))
    if start_one:
        # the first round is peeled off the loop: the counter starts at 1, so slot[0] must have received a freshly pulled
        # element on every path that reaches a returned chunk
        k0 = "EXACT|first-slot-stored"
        okf = False
        for (bi, s_, agg) in _some_blocks(env, pull, ctx, ci_adt.split("::")[-1] + "::" + res[1].rsplit("::", 1)[1]):
            okf = True
            dom = pull.dominators().get(bi, set())
            found = False
            for d in dom:
                c = pull.callee(d)
                if c is not None and not c.indirect and c.trait == "std::ops::IndexMut" and not pull.blocks[d]["cleanup"]:
                    t_ = pull.term(d)
                    if unref(ev.operand(ctx, t_["args"][1])) == ("int", 0) and \
                            _strip_place(unref(ev.operand(ctx, t_["args"][0]))) in {_strip_place(unref(f)) for f in fields} and \
                            any(f[0] == "is_some" and f[2] is True and "Iterator::next" in fmt(f[1]) for f in block_facts(ev, ctx, d)):
                        found = True
            if not found:
                okf = False
                break
        out.append(Ob("EXACT", k0, "ok" if okf else "viol", loc,
                      "the counter starts at 1 after slot[0] received the first pulled element" if okf else
                      "the filled counter starts at 1 but no store of a freshly pulled element into slot[0] dominates the chunk: "
                      "a stale element of an earlier chunk is delivered"))
    # (E1) the counter increment is dominated by a store into slot[counter] of the payload of next()
    cnt_local = None
    # the fill loop may live in `pull` itself or in a private helper it calls (searched one and two levels down)
    cands = [(pull, ctx)]
    for _lvl in range(3):
        # (helpers of helpers, and closures of the puller that a helper runs: `iter.with_iter(|it| { .. fill .. })`)
        for (pb, pc) in list(cands):
            for bi0, t0, c0 in pb.calls():
                nctx0 = ev.callee_ctx(pc, bi0) if not pb.blocks[bi0]["cleanup"] else None
                if nctx0 is not None and all(nctx0.body is not x[0] for x in cands) and len(cands) < 10:
                    cands.append((nctx0.body, nctx0))
    pull0, ctx0 = pull, ctx
    for (pb, pc) in cands:
        for bi, blk in enumerate(pb.blocks):
            for s in blk["stmts"]:
                if s["k"] == "assign" and s["rv"]["k"] == "binop" and s["rv"]["op"].startswith("Add") \
                        and ev.operand(pc, s["rv"]["b"]) == ("int", 1) and cnt_local is None \
                        and _same_counter(ev.operand(pc, s["rv"]["a"]), fields[fi]):
                    cnt_local = (bi, s)
                    pull, ctx = pb, pc
    k1 = "EXACT|one-store-per-increment"
    if cnt_local is None:
        out.append(Ob("EXACT", k1, "viol", loc, "cannot find the increment of the filled counter"))
    else:
        bi, s = cnt_local
        dom = pull.dominators().get(bi, set())
        stored = False
        for d in dom | {bi}:
            c = pull.callee(d)
            if c is not None and not c.indirect and c.trait == "std::ops::IndexMut":
                t = pull.term(d)
                idx = unref(ev.operand(ctx, t["args"][1]))
                if idx == fields[fi] or _same_counter(idx, fields[fi]):
                    stored = True
        if not stored:
            stored = _enumerated_store(env, pull, ctx, bi, s, fields)
        somef = any(f[0] == "is_some" and f[2] is True and "Iterator::next" in fmt(f[1])
                    for f in block_facts(ev, ctx, bi))
        if stored and somef:
            out.append(Ob("EXACT", k1, "ok", pull.file_line(s["loc"]),
                          "each increment follows a store into slot[filled] of an element just pulled", True))
        else:
            out.append(Ob("EXACT", k1, "viol", pull.file_line(s["loc"]),
                          "the filled counter is incremented without a dominating store of the pulled element into "
                          "slot[filled] (stored=%s, under Some(next)=%s)" % (stored, somef)))
    pull, ctx = pull0, ctx0
    # (E2) zero filled -> None
    k2 = "EXACT|zero-filled-is-None"
    good = False
    for (bi, s, agg) in _some_blocks(env, pull, ctx, ci_adt.split("::")[-1] + "::" + res[1].rsplit("::", 1)[1]):
        for f in block_facts(ev, ctx, bi):
            if f[0] == "ne" and len(f) == 3 and f[1] == fields[fi] and f[2] == ("int", 0):
                good = True
    if start_one:
        good = True  # (counts from 1)
    if not good:
        # judged on the return value: every way of returning Some lies under filled != 0 (`(filled > 0).then(..)`)
        from guards import local_cases
        somes = [c for c in (local_cases(ev, ctx, 0, True) or []) if c[0] == "Some"]

        def nonzero(fs):
            return any(len(f) == 3 and ((f[0] == "ne" and {f[1], f[2]} == {fields[fi], ("int", 0)}) or
                                        (f[0] == "lt" and f[1] == ("int", 0) and f[2] == fields[fi]) or
                                        (f[0] == "le" and f[1] == ("int", 1) and f[2] == fields[fi])) for f in fs)
        good = bool(somes) and all(nonzero(fs) for (_K, fs, _v) in somes)
    out.append(Ob("EXACT", k2, "ok" if good else "viol", loc,
                  "a chunk is returned only when at least one element was stored" if good else
                  "the ticket puller can return Some with zero stored elements (empty chunk)", True))
    # (E3) the chunk iterator: reads slot[consumed] only under consumed < filled; len = filled - consumed
    nb = F.method_impl("std::iter::Iterator", "next", ci_adt)
    nb = F.bodies.get(nb) if nb else None
    lb = F.method_impl("std::iter::ExactSizeIterator", "len", ci_adt)
    lb = F.bodies.get(lb) if lb else None
    k3 = "EXACT|next-reads-under-consumed<filled"
    if nb is None:
        out.append(Ob("EXACT", k3, "viol", loc, "Iterator::next of the chunk iterator not found"))
    else:
        nctx = env.ctx(nb, ci_adt, None)
        nsites = 0
        bad = None
        for bi, blk in enumerate(nb.blocks):
            if blk["cleanup"]:
                continue
            places = []
            for s in blk["stmts"]:
                if s["k"] == "assign":
                    rv = s["rv"]
                    if "place" in rv:
                        places.append((rv["place"], s["loc"]))
                    places.append((s["place"], s["loc"]))
            for (pl, l) in places:
                for el in pl["p"]:
                    if el["k"] == "index":
                        nsites += 1
                        idx = unref(ev.local(nctx, el["l"]))
                        fs = block_facts(ev, nctx, bi)
                        okk = False
                        if idx[0] == "field" and idx[2] == ci:
                            for f in fs:
                                if f[0] == "lt" and len(f) == 3 and f[1] == idx and f[2][0] == "field" and f[2][2] == fi \
                                        and f[2][1] == idx[1]:
                                    okk = True
                        if not okk:
                            bad = (nb.file_line(l), fmt(idx))
        # reads through `get` / `get_mut`: in bounds of the *filled prefix* `buf[..filled]` by construction, or of the whole
        # buffer under the guard consumed < filled
        for bi, t, c in nb.calls():
            if nb.blocks[bi]["cleanup"] or c.indirect or PURE.get(callee_model_key(c)) != "slice_get" or len(t["args"]) != 2:
                continue
            nsites += 1
            base = unref(ev.operand(nctx, t["args"][0]))
            while base[0] in ("ref", "deref", "inner"):
                base = unref(base[1])
            idx = unref(ev.operand(nctx, t["args"][1]))
            okk = False
            if idx[0] == "field" and idx[2] == ci:
                if base[0] == "call" and base[1] == "index" and len(base[2]) == 2:
                    rg = unref(base[2][1])
                    if rg[0] == "agg" and rg[1].endswith("ops::RangeTo::RangeTo") and len(rg[2]) == 1:
                        n_ = unref(rg[2][0])
                        okk = n_[0] == "field" and n_[2] == fi and n_[1] == idx[1]
                for f in block_facts(ev, nctx, bi):
                    if f[0] == "lt" and len(f) == 3 and f[1] == idx and f[2][0] == "field" and f[2][2] == fi and f[2][1] == idx[1]:
                        okk = True
            if not okk:
                bad = (nb.file_line(t["loc"]), fmt(idx))
        if nsites == 0:
            out.append(Ob("EXACT", k3, "viol", nb.file_line(), "no buffer read found in the chunk iterator's next"))
        elif bad:
            out.append(Ob("EXACT", k3, "viol", bad[0],
                          "the chunk iterator reads buffer slot [%s] without the guard consumed < filled: stale elements of a "
                          "partly consumed previous chunk can be yielded, and more than len() elements" % bad[1]))
        else:
            out.append(Ob("EXACT", k3, "ok", nb.file_line(), "buffer slots are read at [consumed] under consumed < filled", True))
    k4 = "EXACT|len=filled-consumed"
    if lb is None:
        out.append(Ob("EXACT", k4, "viol", loc, "ExactSizeIterator::len of the chunk iterator not found"))
    else:
        lctx = env.ctx(lb, ci_adt, None)
        t = unref(ev.local(lctx, 0))
        okk = t[0] == "bin" and t[1] == "Sub" and t[2][0] == "field" and t[2][2] == fi and t[3][0] == "field" \
            and t[3][2] == ci and t[2][1] == t[3][1]
        if not okk and t[0] == "call" and t[1] == "saturating_sub":
            a, b = t[2]
            okk = a[0] == "field" and a[2] == fi and b[0] == "field" and b[2] == ci
        out.append(Ob("EXACT", k4, "ok" if okk else "viol", lb.file_line(),
                      "len() = filled - consumed" if okk else
                      "len() of the chunk iterator is not filled - consumed: %s" % fmt(t)[:100], True))
    return out


# ---------------------------------------------------------------------------------------------------
def rule_atom(env, shared):
    """ATOM: who may write the counters. (a) only fetch_add / load / store are used on the crate's atomics;
    (b) a plain store to a position counter happens only in early_exit implementations or with exclusive access;
    (c) a value *loaded* from a position counter never becomes an access index or a reported index."""
    from r_ticket import receiver_kind, owner_of
    m = _m1(env)
    out = []
    R, F = env.R, env.F
    seen = set()
    n_atomic = 0
    for b in F.non_test_bodies():
        sa = F.impl_self_adt(b)
        world = None
        for w in env.worlds():
            if w["iter"] == sa or w["puller"] == sa:
                world = w
        for e in env.flat_events(b, sa, world):
            if e.kind != "atomic":
                continue
            own = owner_of(env, e, b)
            if own.def_ != b.def_:
                continue
            n_atomic += 1
            op = e.info["op"]
            role, adt = R.classify(e.info["place"])
            k = "ATOM.a|%s|%s(%s)" % (env.fname(own), op, role or "atomic")
            if k in seen:
                continue
            seen.add(k)
            if op not in ("fetch_add", "load", "store"):
                out.append(Ob("ATOM.a", k, "viol", e.loc(),
                              "unexpected mutator %s on an atomic of the iteration protocol: the reservation argument relies on "
                              "fetch_add/load/store only" % op))
                continue
            out.append(Ob("ATOM.a", k, "ok", e.loc(), "%s on %s" % (op, role or "an atomic")))
            if op == "store" and role == "pos":
                info = own.info or {}
                is_exit = info.get("name") == "early_exit" and norm_path(info.get("trait")) == R.T_ATOMIC
                if not is_exit:
                    from r_state import is_exit_fn
                    is_exit = is_exit_fn(env, own)
                rk = receiver_kind(own, F)
                k2 = "ATOM.b|%s|store(pos)" % env.fname(own)
                if is_exit:
                    out.append(Ob("ATOM.b", k2, "ok", e.loc(), "position counter is stored by an early_exit implementation"))
                elif rk in ("value", "mut"):
                    out.append(Ob("ATOM.b", k2, "ok", e.loc(), "position counter is stored with exclusive access (%s self)" % rk))
                else:
                    out.append(Ob("ATOM.b", k2, "viol", e.loc(),
                                  "the position counter of %s is overwritten by a plain store in %s, which runs concurrently "
                                  "with pulls: reservations made in between are lost or handed out twice" % (
                                      env.sname(adt), env.fname(own))))
    # (c) loaded counter values must not reach indices
    for u in m.units:
        res = u.result()
        idx, val, kind = _idx_field(res)
        k = "ATOM.c|%s" % u.label
        bad = None
        terms = [("reported index", idx)] if idx is not None else []
        for (e, what, t) in _access_operands(env, u):
            terms.append((what, t))
        for what, t in terms:
            # (the value a read-modify-write returns is the old content of the counter: it does not depend on the amount
            #  operand, which may well be computed from a load — e.g. clamped to what is left)
            t = rewrite(t, lambda x: (x[0], x[1], x[2], (), x[4]) if (x[0] == "atomic" and x[1] == "fetch_add" and len(x) > 4)
                        else None)
            for x in subterms(t):
                if x[0] == "atomic" and x[1] == "load":
                    role, adt = R.classify(x[2])
                    if role in ("pos", "serving"):
                        bad = (what, x)
        if bad:
            out.append(Ob("ATOM.c", k, "viol", u.body.file_line(),
                          "the %s of a %s pull of %s derives from a *load* of a shared counter (%s): between the load and its "
                          "use other threads reserve the same positions" % (bad[0], u.kind, u.world["name"], fmt(bad[1])[:80])))
        else:
            out.append(Ob("ATOM.c", k, "ok", u.body.file_line(), "no index derives from a counter load", True))
    if n_atomic < 8:
        out.append(Ob("ATOM.a", "ATOM.a|floor", "viol", "-", "only %d atomic operations found (anchor lost)" % n_atomic))
    return out


def norm_path(p):
    from facts import norm_std
    return norm_std(p) if p else p


# ---------------------------------------------------------------------------------------------------
def rule_complete(env, shared):
    """COMPLETE: nothing that was reserved inside the source is lost: a pull reports the end only when its reserved
    begin is at/after LEN, and a chunk's extent is clamped to exactly LEN (not to something smaller)."""
    m = _m1(env)
    out = []
    ev, R, F = env.ev, env.R, env.F
    # (1) the reservation helper returns None only under LEN <= reserved index
    for adt, r in R.impl.items():
        if r["kind"] != "known":
            continue
        b = R.method_body(R.T_ATOMIC, "progress_and_get_begin_idx", adt)
        key = "COMPLETE|%s|reserve->None" % r["name"]
        if b is None:
            out.append(Ob("COMPLETE", key, "viol", "-", "reservation helper of %s not found" % r["name"]))
            continue
        ctx = env.ctx(b, adt, env.world_of(adt))
        Lc = m.canon(r["len_term"])
        bad = None
        n = 0
        # every way the helper's result can be None (definition sites of the return value, through `?`, match, if/else,
        # bool::then ...) must lie under LEN <= reserved index
        from guards import site_cases
        for bi, cases in sorted((site_cases(ev, ctx, 0, True) or {}).items()):
            for (K, fs0, _v) in cases:
                if K != "None":
                    continue
                n += 1
                from guards import derive_satsub
                fs = derive_satsub([tuple(m.canon(x) if isinstance(x, tuple) else x for x in f) for f in fs0])
                # ... or under LEN <= a value *loaded* from the position counter: the counter never decreases on a pull
                # path (ATOM), so nothing inside the source is reserved on this path at all
                okk = any(f[0] in ("le", "lt") and len(f) == 3 and f[1] == Lc and f[2][0] == "atomic" and f[2][1] in ("fetch_add", "load")
                          and R.classify(f[2][2])[0] == "pos" for f in fs)
                if not okk:
                    bad = b.file_line(b.term(bi)["loc"])
        if n == 0 or bad:
            out.append(Ob("COMPLETE", key, "viol", bad or b.file_line(),
                          "the reservation helper of %s can return None for a reserved index that is not known to be >= LEN: "
                          "positions inside the source are reserved and never delivered" % r["name"]))
        else:
            out.append(Ob("COMPLETE", key, "ok", b.file_line(), "None only under LEN <= reserved index", True))
        # single pulls: get returns None only under LEN <= idx (or through slice::get)
        g = R.method_body(R.T_ATOMIC, "get", adt)
        key = "COMPLETE|%s|get->None" % r["name"]
        if g is not None:
            gctx = env.ctx(g, adt, env.world_of(adt))
            t = ev.local(gctx, 0)
            if t[0] == "call" and t[1] == "slice_get":
                out.append(Ob("COMPLETE", key, "ok", g.file_line(), "slice::get returns None only out of bounds"))
            else:
                bad = None
                n = 0
                for bi, cases in sorted((site_cases(ev, gctx, 0, True) or {}).items()):
                    for (K, fs0, _v) in cases:
                        if K != "None":
                            continue
                        n += 1
                        fs = [tuple(m.canon(x) if isinstance(x, tuple) else x for x in f) for f in fs0]
                        if not any(f[0] == "le" and len(f) == 3 and f[1] == Lc and f[2] == ("param", 2) for f in fs):
                            bad = g.file_line(g.term(bi)["loc"])
                if n == 0 or bad:
                    out.append(Ob("COMPLETE", key, "viol", bad or g.file_line(),
                                  "get of %s can return None for an index not known to be >= LEN: a reserved element is "
                                  "lost" % r["name"]))
                else:
                    out.append(Ob("COMPLETE", key, "ok", g.file_line(), "None only under LEN <= index", True))
    # (2) chunk extents are clamped to exactly LEN
    for u in m.units:
        if u.kind == "single" or u.world.get("inner"):
            continue
        base = m.base_impl(u.world)
        if R.impl[base]["kind"] != "known":
            continue
        rs = u.reserves()
        if len(rs) != 1:
            continue
        r = list(rs.keys())[0]
        isbegin = begin_forms(ev, u.ctx, r, None)
        L = unit_len(u)
        Lc = m.canon(L) if L is not None else None
        key = "COMPLETE|%s|clamp=LEN" % u.label
        found = False
        for e in u.events:
            if e.kind != "call" and not is_view(e):
                continue
            mdl = e.info.get("model")
            a = e.args
            clamp = None
            kindx = None
            if mdl == "index" and len(a) == 2 and R.classify(a[0])[1] in R.impl:
                rg = unref(a[1])
                if rg[0] == "agg":
                    t1, _ = _strip_max(unref(rg[2][1]), isbegin)
                    ex = _extent(unref(t1), isbegin)
                    if ex:
                        clamp = ex[1]
                        kindx = "idx"
            elif is_view(e):
                ln = unref(a[1])
                if ln[0] == "bin" and ln[1] == "Sub":
                    ex = _extent(unref(ln[2]), isbegin)
                    if ex:
                        clamp = ex[1]
                        kindx = "idx"
            elif mdl == "Iterator::map" and a and unref(a[0])[0] == "agg" and unref(a[0])[1].endswith("Range::Range") \
                    and any("ops::Range<" in f["ty"]["s"] for f in R.impl[base]["fields"]):
                rg = unref(a[0])
                bv = unref(rg[2][0])
                evl = unref(rg[2][1])
                cands = evl[1] if evl[0] == "phi" else (evl,)
                for c in cands:
                    c = unref(c)
                    if c == bv:
                        # the empty alternative must be chosen only when end <= begin value
                        of = ev.option_facts.get((evl, c), []) if evl[0] == "phi" else []
                        if not any(f[0] == "le" and len(f) == 3 and unref(f[2]) == bv for f in of):
                            clamp = ("unknown", "empty alternative of the range extent is not guarded by end <= begin value")
                            kindx = "val"
                        continue
                    c, _sm = _strip_max(c, lambda x, bv=bv: unref(x) == bv)
                    c = unref(c)
                    ex = _extent(c, lambda x, bv=bv: unref(x) == bv)
                    if ex and clamp is None:
                        clamp = ex[1]
                        kindx = "val"
                        # and the non-empty alternative only when begin value < that clamp
                        of = ev.option_facts.get((evl, c), []) if evl[0] == "phi" else None
                        if of is not None and not any(f[0] == "lt" and len(f) == 3 and unref(f[1]) == bv
                                                      and unref(f[2]) == unref(ex[1]) for f in of):
                            clamp = ("unknown", "non-empty alternative of the range extent is not chosen under begin value < end")
            if clamp is None:
                continue
            found = True
            cc = m.canon(unref(clamp))
            good = False
            if clamp[0] == "unknown":
                good = False
            elif kindx == "idx":
                good = (cc == Lc)
            else:
                # value clamp conv(end) corresponds to LEN = end - start for begin value = begin + start
                good = Lc is not None and Lc[0] == "call" and Lc[1] == "saturating_sub" and m.canon(unref(Lc[2][0])) == cc
            if good:
                out.append(Ob("COMPLETE", key, "ok", e.loc(), "extent is clamped to exactly LEN", True))
            else:
                out.append(Ob("COMPLETE", key, "viol", e.loc(),
                              "the %s pull of %s clamps its extent to %s, which is not LEN (%s): reserved positions inside the "
                              "source are not delivered" % (u.kind, u.world["name"],
                                                            clamp[1] if clamp[0] == "unknown" else fmt(cc)[:80],
                                                            fmt(Lc)[:80] if Lc else "?")))
            break
        if not found:
            out.append(Ob("COMPLETE", key, "viol", u.body.file_line(), "cannot find the clamped extent of the %s pull of %s" % (
                u.kind, u.world["name"])))
    return out


# ---------------------------------------------------------------------------------------------------
def rule_ctor(env, shared):
    """CLAMP.ctor: the length a consuming implementor captures in a field is the length of the very collection it stores
    (this justifies treating `stored.len()` and the field as one LEN), and nothing but constructors writes that field."""
    out = []
    R, F, ev = env.R, env.F, env.ev
    for adt, r in R.impl.items():
        if r["kind"] != "known":
            continue
        lt = r.get("len_term")
        if lt is None or lt[0] != "field":
            continue  # LEN is a constant or computed from immutable bounds on every call
        lidx = lt[2]
        nm = r["name"]
        store_idx = [i for i in r.get("cell_fields", [])]
        n = 0
        for b in F.non_test_bodies():
            ctx = env.ctx(b, F.impl_self_adt(b), None)
            for bi, blk in enumerate(b.blocks):
                for s in blk["stmts"]:
                    if s["k"] != "assign":
                        continue
                    rv = s["rv"]
                    if rv["k"] == "aggregate" and rv.get("ak") == "adt" and adt == rv["adt"].replace("core::", "std::"):
                        n += 1
                        ops = [unref(ev.operand(ctx, o)) for o in rv["ops"]]
                        lenop = ops[lidx]
                        k = "CLAMP.ctor|%s|%s" % (nm, env.fname(b))
                        good = False
                        if lenop[0] == "call" and lenop[1] == "len" and store_idx:
                            src = unref(lenop[2][0])
                            st = ops[store_idx[0]]
                            # the stored value wraps the same object
                            good = any(x == src or unref(x) == src for x in subterms(st))
                        out.append(Ob("CLAMP.ctor", k, "ok" if good else "viol", b.file_line(s["loc"]),
                                      "captured length is len() of the collection moved into the storage" if good else
                                      "%s captures a length (%s) that is not the length of the collection it stores: bounds "
                                      "checks against it do not protect the storage" % (nm, fmt(lenop)[:80]), True))
                    pl = s["place"]
                    if pl["p"] and pl["p"][-1]["k"] == "field" and pl["p"][-1].get("adt") == adt and pl["p"][-1]["i"] == lidx:
                        out.append(Ob("CLAMP.ctor", "CLAMP.ctor|%s|%s|writer" % (nm, env.fname(b)), "viol", b.file_line(s["loc"]),
                                      "the captured length of %s is overwritten outside its constructor" % nm))
        if n == 0:
            out.append(Ob("CLAMP.ctor", "CLAMP.ctor|%s|none" % nm, "viol", "-", "no constructor of %s found" % nm))
    return out
