"""Rules about end-of-iteration state: SKIP (early exit), SEQ (into_seq_iter), LEN (try_get_len / has_more),
DONE-EVID / DONE-SET (the sticky end flag of the ticket implementor).
"""
from env import Ob
from guards import block_facts, unref
from terms import fmt, subterms
from roles import place_path
from r_m1 import _m1, CProver, rewrite
from r_ticket import _ticket, receiver_kind, owner_of


def _impls(env, kinds=("known", "ticket")):
    return [(adt, r) for adt, r in env.R.impl.items() if r["kind"] in kinds]


def _pos_loads(env, t):
    """distinct load terms of a position counter inside t"""
    out = []
    for x in subterms(t):
        if x[0] == "atomic" and x[1] == "load":
            role, adt = env.R.classify(x[2])
            if role == "pos" and x not in out:
                out.append(x)
    return out


def exit_body(env, eb, adt, depth=0):
    """the body that does the work of early_exit: early_exit itself, or — when early_exit only delegates to one private
    method of the same type on `self` (`fn early_exit(&self) { self.terminate() }`) — that method"""
    F, ev = env.F, env.ev
    calls = [(bi, t, c) for bi, t, c in eb.calls() if not eb.blocks[bi]["cleanup"]]
    if len(calls) != 1 or depth > 1:
        return eb
    bi, t, c = calls[0]
    if c.indirect or not c.local or c.trait:
        return eb
    d = F.resolve_callee(c, adt, None)
    hb = F.bodies.get(d) if d else None
    if hb is None or hb.is_closure or F.impl_self_adt(hb) != adt or (hb.info or {}).get("exported"):
        return eb
    ctx = env.ctx(eb, adt, None)
    if not t["args"] or unref(ev.operand(ctx, t["args"][0])) not in (("param", 1), ("deref", ("param", 1))):
        return eb
    # nothing but the call (no other statements with effects: only the call and the return)
    if any(st["k"] == "assign" and st["place"]["p"] for blk in eb.blocks if not blk["cleanup"] for st in blk["stmts"]):
        return eb
    return exit_body(env, hb, adt, depth + 1)


def is_exit_fn(env, b):
    """b is an early_exit implementation, or the private method one of them delegates all its work to"""
    F, R = env.F, env.R
    info = b.info or {}
    from r_m1 import norm_path
    if info.get("name") == "early_exit" and norm_path(info.get("trait")) == R.T_ATOMIC:
        return True
    adt = F.impl_self_adt(b)
    if adt is None or b.is_closure:
        return False
    eb = R.method_body(R.T_ATOMIC, "early_exit", adt)
    return eb is not None and exit_body(env, eb, adt).def_ == b.def_ and eb.def_ != b.def_


def rule_skip(env, shared):
    """SKIP: early_exit ends the iteration for every later pull.
    counter form: stores v >= LEN into the position counter; reservation form: reserves >= LEN positions;
    flag form: sets the sticky end flag (admissions are gated on it: rule GATE)."""
    out = []
    R, F, ev = env.R, env.F, env.ev
    m = _m1(env)
    for adt, r in _impls(env):
        b = R.method_body(R.T_ATOMIC, "early_exit", adt)
        key = "SKIP|%s" % r["name"]
        if b is None:
            out.append(Ob("SKIP", key, "viol", "-", "early_exit of %s not found" % r["name"]))
            continue
        b = exit_body(env, b, adt)
        w = env.world_of(adt)
        evs = env.flat_events(b, adt, w)
        L = r.get("len_term")
        Lc = m.canon(L) if L is not None else None
        good = None
        for e in evs:
            if e.kind != "atomic":
                continue
            role, a2 = R.classify(e.info["place"])
            if a2 != adt:
                continue
            if role == "pos" and e.info["op"] == "store" and Lc is not None:
                v = m.canon(unref(e.args[1]))
                p = CProver([tuple(m.canon(x) if isinstance(x, tuple) else x for x in f) for f in env.event_facts(e)], ev,
                            e.ctx)
                if p.le(Lc, v) and not (v == Lc or p.le(v, Lc)):
                    out.append(Ob("SKIP", key, "viol", e.loc(),
                                  "early_exit of %s stores %s into the position counter: that is >= LEN (%s) but not LEN itself, "
                                  "so the counter is left with less headroom than a pull past the end leaves it — for a source "
                                  "ending near usize::MAX a few pulls after skip_to_end wrap the counter and elements are "
                                  "delivered again" % (r["name"], fmt(v)[:60], fmt(Lc)[:80])))
                    good = False
                elif p.le(Lc, v):
                    good = (e, "counter form: stores LEN")
                else:
                    out.append(Ob("SKIP", key, "viol", e.loc(),
                                  "early_exit of %s stores %s into the position counter, which is not known to be >= LEN "
                                  "(%s): later pulls can still reserve positions inside the source, or positions already "
                                  "delivered" % (r["name"], fmt(v)[:80], fmt(Lc)[:80])))
                    good = False
            elif role == "pos" and e.info["op"] == "fetch_add" and Lc is not None:
                k = m.canon(unref(e.args[1]))
                p = CProver([tuple(m.canon(x) if isinstance(x, tuple) else x for x in f) for f in env.event_facts(e)], ev, e.ctx)
                # everything from a position that was read from the counter before (the counter only grows): LEN - load
                rest_ok = False
                for x in subterms(k):
                    if x[0] == "bin" and x[1] == "Sub" and x[2] == Lc and x[3][0] == "atomic" and x[3][1] == "load" \
                            and R.classify(x[3][2]) == ("pos", adt) and p.le(x, k):
                        rest_ok = True
                # .. or the smallest of several such amounts: the counter only grows, so `LEN - (any earlier read)` is at
                # least what is left when the reservation takes place, and so is the minimum of such terms
                def leaves(x):
                    x = unref(x)
                    if x[0] == "call" and x[1] == "min" and len(x[2]) == 2:
                        return leaves(x[2][0]) + leaves(x[2][1])
                    return [x]

                def rest_leaf(x):
                    if x == Lc:
                        return True
                    a_ = b_ = None
                    if x[0] == "bin" and x[1] == "Sub":
                        a_, b_ = x[2], unref(x[3])
                    elif x[0] == "call" and x[1] == "saturating_sub" and len(x[2]) == 2:
                        a_, b_ = x[2][0], unref(x[2][1])
                    return a_ == Lc and b_ is not None and b_[0] == "atomic" and b_[1] == "load" \
                        and R.classify(b_[2]) == ("pos", adt)
                if not rest_ok and all(rest_leaf(x) for x in leaves(k)):
                    rest_ok = True
                if p.le(Lc, k):
                    good = (e, "reservation form: reserves %s >= LEN positions" % fmt(k)[:60])
                elif rest_ok:
                    good = (e, "reservation form: reserves all positions that are left (LEN - position read before)")
                else:
                    out.append(Ob("SKIP", key, "viol", e.loc(),
                                  "early_exit of %s reserves only %s positions, not the whole remaining source" % (
                                      r["name"], fmt(k)[:80])))
                    good = False
            elif role == "done" and e.info["op"] == "store" and r["kind"] == "ticket":
                if len(e.args) >= 2 and e.args[1] in (("int", 1), ("const", "true")):
                    good = (e, "flag form: sets the sticky end flag (admissions gated by rule GATE)")
        if r["kind"] == "ticket":
            # SKIP.order: moving the ticket counter (a plain store; the next reservations wrap it around to tickets that may
            # still be in use) is only safe once the end flag is set: every reservation made after the counter store then
            # observes the flag at its gate (GATE). The flag store must dominate every store to the counter.
            flag_bbs = [e.info["top_bb"] for e in evs if e.kind == "atomic" and e.info["op"] == "store"
                        and R.classify(e.info["place"]) == ("done", adt)
                        and len(e.args) >= 2 and e.args[1] in (("int", 1), ("const", "true"))]
            for e in evs:
                if e.kind == "atomic" and e.info["op"] in ("store", "swap") and R.classify(e.info["place"]) == ("pos", adt):
                    ko = "SKIP.order|%s" % r["name"]
                    tb = e.info["top_bb"]
                    ordn = e.info["orderings"][0] if e.info["orderings"] else None
                    if any(fb != tb and b.dominates(fb, tb) for fb in flag_bbs) and ordn not in ("Release", "AcqRel", "SeqCst"):
                        out.append(Ob("SKIP.order", ko, "viol", e.loc(),
                                      "early_exit of %s moves the ticket counter with a %s store: the end flag stored before "
                                      "it is not published with it, so a pull that reserves a wrapped-around ticket "
                                      "afterwards may still read the flag as false and enter the wrapped iterator next to "
                                      "the current holder; the store must be Release or stronger" % (r["name"], ordn)))
                    elif any(fb != tb and b.dominates(fb, tb) for fb in flag_bbs):
                        out.append(Ob("SKIP.order", ko, "ok", e.loc(), "the end flag is set before the ticket counter is moved",
                                      True))
                    else:
                        out.append(Ob("SKIP.order", ko, "viol", e.loc(),
                                      "early_exit of %s moves the ticket counter before the end flag is set: two pulls that "
                                      "reserve in between receive the last ticket and, after the wrap, ticket 0 again; the "
                                      "second one passes `ticket == now-serving` with the flag still false and enters the "
                                      "wrapped iterator next to the current holder of ticket 0" % r["name"]))
        if r["kind"] == "ticket":
            # ... and every reservation of a ticket reads the counter with Acquire or stronger (it is the read side of the
            # publication above)
            for u in m.units:
                if m.base_impl(u.world) != adt or u.world.get("inner"):
                    continue
                for e in u.events:
                    if e.kind == "atomic" and e.info["op"] == "fetch_add" and R.classify(e.info["place"]) == ("pos", adt):
                        ka = "SKIP.order|%s|reserve(%s)" % (r["name"], u.kind)
                        if any(o.key == ka for o in out):
                            continue
                        ordn = e.info["orderings"][0] if e.info["orderings"] else None
                        okk = ordn in ("Acquire", "AcqRel", "SeqCst")
                        out.append(Ob("SKIP.order", ka, "ok" if okk else "viol", e.loc(),
                                      "ticket reservation is %s" % ordn if okk else
                                      "the %s pull of %s reserves its ticket with a %s read-modify-write: it does not acquire "
                                      "what skip_to_end published before moving the counter (the end flag), so a "
                                      "wrapped-around ticket can be admitted after skip_to_end" % (u.kind, r["name"], ordn)))
        if good is None:
            out.append(Ob("SKIP", key, "viol", b.file_line(),
                          "early_exit of %s neither moves the position counter to/after LEN nor sets the end flag: "
                          "skip_to_end has no effect on later pulls" % r["name"]))
        elif good:
            out.append(Ob("SKIP", key, "ok", good[0].loc(), good[1], True))
    # every skip_to_end reaches the early_exit of the same object
    for adt, r in env.R.impl.items():
        b = R.method_body(R.T_CON, "skip_to_end", adt)
        key = "SKIP.fwd|%s" % r["name"]
        if b is None:
            out.append(Ob("SKIP.fwd", key, "viol", "-", "skip_to_end of %s not found" % r["name"]))
            continue
        ctx = env.ctx(b, adt, None)
        okk = False
        eb0 = R.method_body(R.T_ATOMIC, "early_exit", adt)
        eh = exit_body(env, eb0, adt) if eb0 is not None else None
        for bi, t, c in b.calls():
            if c.trait == R.T_ATOMIC and c.name == "early_exit":
                a0 = unref(ev.operand(ctx, t["args"][0]))
                if a0 in (("param", 1), ("deref", ("param", 1))):
                    okk = True
            elif eh is not None and eb0 is not None and eh.def_ != eb0.def_ and not c.indirect \
                    and F.resolve_callee(c, adt, None) == eh.def_ and t["args"]:
                # .. or the private function early_exit itself consists of (`fn terminate(&self)` shared by the two)
                a0 = unref(ev.operand(ctx, t["args"][0]))
                if a0 in (("param", 1), ("deref", ("param", 1))):
                    okk = True
        if okk:
            out.append(Ob("SKIP.fwd", key, "ok", b.file_line(), "skip_to_end calls early_exit on self"))
        else:
            out.append(Ob("SKIP.fwd", key, "viol", b.file_line(),
                          "skip_to_end of %s does not call early_exit on the iterator itself" % r["name"]))
    return out


def rule_seq(env, shared):
    """SEQ: into_seq_iter returns the remainder: its result depends on exactly one read of the position counter, used as
    skip count / split index / range offset, clamped to LEN where overshoot is not tolerated, with no other arithmetic."""
    out = []
    R, F, ev = env.R, env.F, env.ev
    m = _m1(env)
    for adt, r in env.R.impl.items():
        b = R.method_body(R.T_CON, "into_seq_iter", adt)
        key = "SEQ|%s" % r["name"]
        if b is None:
            out.append(Ob("SEQ", key, "viol", "-", "into_seq_iter of %s not found" % r["name"]))
            continue
        w = env.world_of(adt)
        ctx = env.ctx(b, adt, w if r["kind"] != "adaptor" else None)
        t = ev.local(ctx, 0)
        loc = b.file_line()
        if r["kind"] == "adaptor":
            # Iterator::cloned / copied of the inner into_seq_iter
            inner = None
            if t[0] == "call" and t[1] in ("Iterator::cloned", "Iterator::copied") and t[2]:
                x = t[2][0]
                if x[0] == "ret" and x[1].endswith("::into_seq_iter"):
                    fl = env.R.self_field_path(x[2][0]) if x[2] else None
                    if fl and fl[0][0] == r.get("inner_field"):
                        inner = x
            out.append(Ob("SEQ", key, "ok" if inner else "viol", loc,
                          "forwards to the inner into_seq_iter and maps by clone/copy" if inner else
                          "into_seq_iter of the adaptor is not `inner.into_seq_iter().cloned()/copied()`: %s" % fmt(t)[:120]))
            continue
        if r["kind"] == "ticket":
            okk = t[0] == "call" and t[1] == "UnsafeCell::into_inner" and t[2] and \
                R.classify(t[2][0]) == ("cell", adt)
            out.append(Ob("SEQ", key, "ok" if okk else "viol", loc,
                          "returns the wrapped iterator itself (advanced exactly by the delivered elements)" if okk else
                          "into_seq_iter of the wrapper does not return the wrapped iterator itself: %s" % fmt(t)[:120]))
            continue
        loads = _pos_loads(env, t)
        if len(loads) == 0:
            out.append(Ob("SEQ", key, "viol", loc,
                          "the result of into_seq_iter of %s does not depend on the position counter: already delivered "
                          "elements are returned again (or the remainder is dropped)" % r["name"]))
            continue
        if len(loads) > 1:
            out.append(Ob("SEQ", key, "viol", loc, "into_seq_iter of %s reads the position counter %d times" % (
                r["name"], len(loads))))
            continue
        ld = loads[0]
        Lc = m.canon(r["len_term"])
        # `self` by value: the same LEN term without the dereference of the receiver
        Lc_val = rewrite(Lc, lambda x: ("param", 1) if x == ("deref", ("param", 1)) else None)
        tc = m.canon(t)
        # (the size passed to an allocation is a capacity hint, not part of the returned sequence)
        from r_ovf import ALLOC_SIZED
        tc = rewrite(tc, lambda x: ("const", "allocation-hint") if (x[0] == "ret" and x[1] in ALLOC_SIZED) else None)
        ldc = m.canon(ld)
        # walk ancestors of the load
        verdict = {"arith": None, "clamped": False, "use": None}

        def walk(x, anc):
            if x == ldc:
                # ancestors from innermost
                for a in reversed(anc):
                    if a[0] == "call" and a[1] == "min" and any(m.canon(unref(y)) in (Lc, Lc_val) for y in a[2]):
                        verdict["clamped"] = True
                        continue
                    if a[0] == "call" and a[1] == "conv":
                        continue
                    if a[0] in ("ref",):
                        continue
                    if a[0] == "bin" and a[1] in ("Add", "Sub", "Mul", "AddWithOverflow", "SubWithOverflow"):
                        verdict["arith"] = a
                        return
                    if a[0] == "call" and a[1] in ("saturating_add", "saturating_sub", "wrapping_add", "wrapping_sub",
                                                   "max"):
                        verdict["arith"] = a
                        return
                    if a[0] == "call" and a[1] == "add":
                        # generic start + idx : allowed only with the range start
                        role, a2 = R.classify(a[2][0])
                        if a2 == adt:
                            verdict["use"] = "range offset"
                            continue
                        verdict["arith"] = a
                        return
                    if a[0] == "call" and a[1] == "Iterator::skip":
                        verdict["use"] = "skip count"
                        return
                    if a[0] == "ret" and ("split_off" in a[1]):
                        verdict["use"] = "split index"
                        return
                    if a[0] == "agg" and a[1].endswith("Range::Range"):
                        if verdict["use"] is None:
                            verdict["use"] = "range start"
                        continue
                    if a[0] in ("call", "ret", "agg", "phi"):
                        continue
                return
            if isinstance(x, tuple):
                for y in x[1:]:
                    if isinstance(y, tuple) and y and isinstance(y[0], str):
                        walk(y, anc + [x])
                    elif isinstance(y, tuple):
                        for z in y:
                            if isinstance(z, tuple) and z and isinstance(z[0], str):
                                walk(z, anc + [x])
        walk(tc, [])
        if verdict["arith"] is not None:
            out.append(Ob("SEQ", key, "viol", loc,
                          "into_seq_iter of %s applies arithmetic to the position counter before using it as the split "
                          "point: %s" % (r["name"], fmt(verdict["arith"])[:140])))
            continue
        use = verdict["use"]
        if use is None:
            out.append(Ob("SEQ", key, "viol", loc, "cannot establish how into_seq_iter of %s uses the position counter: %s" % (
                r["name"], fmt(tc)[:200])))
            continue
        if use != "skip count" and not verdict["clamped"]:
            # guarded instead of clamped: every call of into_seq_iter that is given the counter value is made under
            # `counter <= LEN` (`match self.pending() { Some((first, _)) => split(first), None => Vec::new() }`)
            sites = []
            for bi, t_, c_ in b.calls():
                if b.blocks[bi]["cleanup"]:
                    continue
                def plain(x):
                    x = unref(x)
                    while x[0] == "call" and x[1] == "conv" and x[2]:
                        x = unref(x[2][0])
                    return m.canon(x)
                if any(plain(x) == ldc for x in (ev.operand(ctx, a) for a in t_["args"])):
                    c0 = b.callee(bi)
                    if c0 is not None and not c0.indirect and (c0.key.endswith("AtomicCounter::current") or
                                                               c0.name in ("then", "then_some", "map", "branch")):
                        continue
                    fs_ = [tuple(m.canon(x) if isinstance(x, tuple) else x for x in f) for f in block_facts(ev, ctx, bi)]
                    p_ = CProver(fs_, ev, ctx)
                    sites.append(p_.le(ldc, Lc) or p_.le(ldc, Lc_val))
            if sites and all(sites):
                verdict["clamped"] = True
        if use != "skip count" and not verdict["clamped"]:
            out.append(Ob("SEQ", key, "viol", loc,
                          "into_seq_iter of %s uses the raw position counter as %s; after overshooting pulls or skip_to_end "
                          "the counter exceeds the length and the remainder is malformed / the split panics — it must be "
                          "clamped to LEN" % (r["name"], use)))
            continue
        out.append(Ob("SEQ", key, "ok", loc, "remainder split at one read of the position counter (%s%s)" % (
            use, ", clamped to LEN" if verdict["clamped"] else ""), True))
    return out


def norm_path(p):
    from facts import norm_std
    return norm_std(p) if p else p


def rule_len(env, shared):
    """LEN: try_get_len = LEN - counter under counter < LEN, else 0; the ticket implementor answers 0 once the end flag
    is set; has_more maps None/Some(0)/Some(n) to Maybe/No/Yes(n) and is not overridden; the initial length of a wrapped
    iterator is captured only from an exact size hint."""
    out = []
    R, F, ev = env.R, env.F, env.ev
    m = _m1(env)

    def len_shape(t, Lc_pred, adt):
        """t is `phi(0 | L - load)` or saturating_sub(L, load)"""
        t = unref(t)
        opts = t[1] if t[0] == "phi" else (t,)
        seen_sub = False
        for o in opts:
            o = m.canon(unref(o))
            if o == ("int", 0):
                continue
            if (o[0] == "bin" and o[1] == "Sub") or (o[0] == "call" and o[1] == "saturating_sub"):
                a, b2 = (o[2], o[3]) if o[0] == "bin" else (o[2][0], o[2][1])
                a, b2 = unref(a), unref(b2)
                if b2[0] == "atomic" and b2[1] == "load" and R.classify(b2[2]) == ("pos", adt) and Lc_pred(a):
                    seen_sub = True
                    continue
            return False, o
        return seen_sub, None

    for adt, r in env.R.impl.items():
        b = R.method_body(R.T_CON, "try_get_len", adt)
        key = "LEN|%s" % r["name"]
        if b is None:
            out.append(Ob("LEN", key, "viol", "-", "try_get_len of %s not found" % r["name"]))
            continue
        ctx = env.ctx(b, adt, env.world_of(adt) if r["kind"] != "adaptor" else None)
        t = ev.local(ctx, 0)
        loc = b.file_line()
        if r["kind"] == "adaptor":
            okk = t[0] == "ret" and t[1].endswith("::try_get_len") and t[2] and \
                (env.R.self_field_path(t[2][0]) or [(None,)])[0][0] == r.get("inner_field")
            out.append(Ob("LEN", key, "ok" if okk else "viol", loc,
                          "forwards to the inner try_get_len" if okk else
                          "try_get_len of the adaptor does not forward to the inner iterator: %s" % fmt(t)[:120]))
            continue
        if r["kind"] == "known":
            Lc = m.canon(r["len_term"])
            p = ev.payload(ctx, t)
            good, bad = len_shape(p, lambda a: m.canon(a) == Lc, adt)
            none_possible = any(x[0] == "agg" and x[1].endswith("Option::None") for x in subterms(t))
            if good and not none_possible:
                out.append(Ob("LEN", key, "ok", loc, "Some(LEN - counter) under counter < LEN, else Some(0)", True))
            else:
                out.append(Ob("LEN", key, "viol", loc,
                              "try_get_len of %s is not `LEN - counter` (saturating): %s" % (
                                  r["name"], fmt(bad if bad is not None else p)[:140])))
            continue
        # ticket: every way the answer can be produced (definition sites of the return value, through if / match / `?` /
        # Option::map) is judged with the facts it is produced under
        from guards import local_cases
        done_ok = False
        done_bad = None
        shape_ok = False
        shape_bad = None
        gated = True

        def captured(a):
            a = unref(a)
            return a == ("param", 2) or (a[0] == "payload" and bool(env.R.self_field_path(unref(a[1]))))
        for (K, fs, v) in (local_cases(ev, ctx, 0, True) or []):
            if K not in ("Some", "None"):
                continue
            flag_t = any(f[0] == "flag" and f[2] is True and R.classify(f[1]) == ("done", adt) for f in fs)
            flag_f = any(f[0] == "flag" and f[2] is False and R.classify(f[1]) == ("done", adt) for f in fs)
            if K == "Some":
                if v is not None and v[0] == "agg" and v[2]:
                    x = v[2][0]
                elif v is not None:
                    x = ev.payload(ctx, v)
                else:
                    x = ("unknown", "value")
                if flag_t:
                    if unref(x) == ("int", 0):
                        done_ok = True
                    else:
                        done_bad = x
                else:
                    if not flag_f:
                        gated = False
                    good, bad = len_shape(x, captured, adt)
                    if good:
                        shape_ok = True
                    else:
                        shape_bad = bad if bad is not None else x
            else:
                # None: only when the length was not captured (and, like every non-zero answer, under a false flag)
                if not any(f[0] == "is_some" and f[2] is False and env.R.self_field_path(unref(f[1])) for f in fs):
                    shape_bad = ("unknown", "None is answered although the captured length may be known")
                if not flag_f:
                    # answered before (or without) looking at the end flag: after the end, a source of unknown length keeps
                    # answering None — has_more says Maybe for ever although nothing can be delivered any more
                    gated = False
        k2 = key + "|flag->Some(0)"
        okk2 = done_ok and done_bad is None
        out.append(Ob("LEN", k2, "ok" if okk2 else "viol", loc,
                      "answers Some(0) once the end flag is set" if okk2 else
                      "try_get_len of the wrapper does not answer Some(0) when the end flag is set: after skip_to_end, "
                      "exhaustion or a panic the remaining length is reported from the position counter alone"))
        k3 = key + "|initial_len-counter"
        okk3 = shape_ok and gated and shape_bad is None
        out.append(Ob("LEN", k3, "ok" if okk3 else "viol", loc,
                      "otherwise maps the captured exact length l to l - counter (saturating)" if okk3 else
                      "the length answer of the wrapper is not `captured length - counter` under a false end flag "
                      "(shape=%s, under flag false=%s%s)" % (shape_ok, gated, ", offending: " + fmt(shape_bad)[:80]
                                                             if shape_bad is not None else ""), True))
        # constructor: captured only for exact size hints — every way the captured-length field can get a `Some` lies under
        # `lower == upper` of the size hint and carries one of the two
        ctor_ok = None
        cl = loc
        from guards import local_cases as _lc
        lf = None
        for i, f in enumerate(r["fields"]):
            if f["ty"]["s"].replace("core::", "std::").startswith("std::option::Option<usize>"):
                lf = i
        for cb in F.non_test_bodies():
            if F.impl_self_adt(cb) != adt or cb.is_closure or lf is None:
                continue
            cctx = env.ctx(cb, adt, None)
            for bi, blk in enumerate(cb.blocks):
                if blk["cleanup"]:
                    continue
                for s in blk["stmts"]:
                    if s["k"] == "assign" and s["rv"]["k"] == "aggregate" and s["rv"].get("ak") == "adt" \
                            and norm_path(s["rv"]["adt"]) == adt and lf < len(s["rv"]["ops"]):
                        op = s["rv"]["ops"][lf]
                        if op["k"] not in ("copy", "move") or op["place"]["p"]:
                            continue
                        cases = [c for c in (_lc(ev, cctx, op["place"]["l"], True) or []) if c[0] == "Some"]
                        if not cases:
                            continue
                        cl = cb.file_line(s["loc"])
                        ctor_ok = True
                        for (K, fs, v) in cases:
                            eqs = [f for f in fs if f[0] == "eq" and len(f) == 3 and "size_hint" in fmt(f[1])
                                   and "size_hint" in fmt(f[2])]
                            val_ok = v is not None and v[0] == "agg" and v[2] and "size_hint" in fmt(v[2][0])
                            if not (eqs and val_ok):
                                ctor_ok = False
        k4 = key + "|exact-size-hint"
        if ctor_ok is None:
            out.append(Ob("LEN", k4, "viol", loc, "cannot find where the wrapper captures the size hint"))
        else:
            out.append(Ob("LEN", k4, "ok" if ctor_ok else "viol", cl,
                          "length captured only when lower == upper" if ctor_ok else
                          "the wrapper captures a length from an inexact size hint", True))
    # has_more
    hb = F.trait_default(R.T_CON, "has_more")
    key = "LEN.has_more"
    if hb is None:
        out.append(Ob("LEN.has_more", key, "viol", "-", "has_more default not found"))
    else:
        hb = F.bodies[hb]
        good = {"Maybe": False, "No": False, "Yes": False}
        bodies = [hb] + list(F.closures_of.get(hb.def_, []))
        hctx = env.ctx(hb, None, None)
        # Option::map_or(try_get_len(), default, closure): the default is used iff the length is None
        mapor_default = None
        for bi, t, c in hb.calls():
            from terms import PURE, callee_model_key
            if PURE.get(callee_model_key(c)) == "Option::map_or" and len(t["args"]) == 3:
                if "try_get_len" in fmt(ev.operand(hctx, t["args"][0])):
                    mapor_default = unref(ev.operand(hctx, t["args"][1]))
        # a helper that has_more hands the length to (`HasMore::from_remaining_len(self.try_get_len())`) is part of it: it is
        # judged in the activation has_more calls it in, closures included
        pairs = [(hb2, env.ctx(hb2, None, None), None) for hb2 in bodies]
        for bi, t, c in hb.calls():
            if hb.blocks[bi]["cleanup"] or not any("try_get_len" in fmt(ev.operand(hctx, a)) for a in t["args"]):
                continue
            nctx = ev.callee_ctx(hctx, bi)
            if nctx is None:
                continue
            pairs.append((nctx.body, nctx, None))
            for bj, t2, c2 in nctx.body.calls():
                if PURE.get(callee_model_key(c2)) == "Option::map_or" and len(t2["args"]) == 3 \
                        and "try_get_len" in fmt(ev.operand(nctx, t2["args"][0])):
                    mapor_default = unref(ev.operand(nctx, t2["args"][1]))
            for cl in F.closures_of.get(nctx.body.def_, []):
                cctx, _cbb = env.closure_ctx(nctx, cl)
                if cctx is not None:
                    pairs.append((cl, cctx, list(getattr(cctx, "entry_facts", ()) or ())))
        # .. and a crate function named as the mapping of `map_or` / `map` on the length (`len.map_or(Maybe, HasMore::f)`): it
        # runs on the payload, i.e. where the length is Some
        from terms import Ctx as _Ctx
        for bi, t, c in hb.calls():
            mk_ = PURE.get(callee_model_key(c))
            if hb.blocks[bi]["cleanup"] or mk_ not in ("Option::map_or", "Option::map") or not t["args"]:
                continue
            recv_ = ev.operand(hctx, t["args"][0])
            if "try_get_len" not in fmt(recv_):
                continue
            fn_ = unref(ev.operand(hctx, t["args"][-1]))
            fb_ = ev.fn_by_path(fn_[1]) if fn_[0] == "fnref" else None
            if fb_ is not None and fb_.arg_count == 1:
                fctx_ = _Ctx(fb_, params=(ev.payload(hctx, recv_),), self_adt=F.impl_self_adt(fb_), stack=(hb.def_, fb_.def_), depth=1)
                pairs.append((fb_, fctx_, []))
        for (hb2, ctx, entry) in pairs:
            for bi, blk in enumerate(hb2.blocks):
                for s in blk["stmts"]:
                    if s["k"] == "assign" and s["rv"]["k"] == "aggregate" and s["rv"].get("ak") == "adt" \
                            and s["rv"]["adt"].endswith("HasMore"):
                        vn = s["rv"]["variant_name"]
                        fs = block_facts(ev, ctx, bi) + (env.creation_facts(hb2, ctx) if (hb2.is_closure and entry is None) else [])
                        agg = ev.rvalue(ctx, s["rv"])
                        if vn == "Maybe":
                            good["Maybe"] = any(f[0] == "is_some" and f[2] is False and "try_get_len" in fmt(f[1]) for f in fs) \
                                or (mapor_default is not None and mapor_default == agg)
                        elif vn == "No":
                            good["No"] = any(f[0] in ("eq", "le") and len(f) == 3 and f[2] == ("int", 0) and "try_get_len" in fmt(f[1])
                                             for f in fs)
                        elif vn == "Yes":
                            v = unref(ev.operand(ctx, s["rv"]["ops"][0]))
                            good["Yes"] = "try_get_len" in fmt(v) and fmt(v).startswith("payload(")
        allok = all(good.values())
        out.append(Ob("LEN.has_more", key, "ok" if allok else "viol", hb.file_line(),
                      "None->Maybe, Some(0)->No, Some(n)->Yes(n)" if allok else
                      "has_more does not map try_get_len as None->Maybe, Some(0)->No, Some(n)->Yes(n): %s" % good, True))
        for adt, r in env.R.impl.items():
            i = F.trait_impls.get((R.T_CON, adt))
            k5 = "LEN.has_more|%s" % r["name"]
            if i and i["items"].get("has_more") == "default":
                out.append(Ob("LEN.has_more", k5, "ok", "-", "%s uses the default has_more" % r["name"]))
            else:
                out.append(Ob("LEN.has_more", k5, "viol", "-",
                              "%s overrides has_more: its agreement with try_get_len is not established" % r["name"]))
    return out


def fill_loops(env, T, b, ctx):
    """Loops of body b that fill a fresh vector from the wrapped iterator, one push per element, for at most n rounds:
        let mut buf = Vec::new();  for _ in 0..n { match iter.next() { Some(x) => buf.push(x), None => break } }
    (any spelling with the same control flow). For such a loop `buf.len() < n` holds after it exactly when the wrapped
    iterator returned None. Returns [(buf term, n term, loop blocks)]."""
    ev = env.ev
    out = []
    for (h, L) in b.natural_loops():
        inner = [(bi, t) for bi, t, c in b.calls() if bi in L and not c.indirect and c.trait == "std::iter::Iterator"
                 and c.name == "next" and c.self_param is not None]
        pushes = [(bi, t) for bi, t, c in b.calls() if bi in L and not c.indirect and c.key == "std::vec::Vec::push"]
        rng = []
        for bi, t, c in b.calls():
            if bi in L and not c.indirect and c.trait == "std::iter::Iterator" and c.name == "next" and c.self_param is None:
                a0 = unref(ev.operand(ctx, t["args"][0]))
                if a0[0] == "call" and a0[1] == "into_iter" and a0[2]:
                    a0 = unref(a0[2][0])
                if a0[0] == "agg" and a0[1].endswith("Range::Range") and len(a0[2]) == 2 and unref(a0[2][0]) == ("int", 0):
                    rng.append((bi, t, unref(a0[2][1])))
        if len(inner) != 1 or len(pushes) != 1 or len(rng) > 1:
            continue
        (ib, it), (pb, pt) = inner[0], pushes[0]
        buf = unref(ev.operand(ctx, pt["args"][0]))
        guard_n = None
        if not rng:
            # `while buf.len() < n { .. }`: the loop is left by its guard exactly when n <= buf.len()
            lnb = ("call", "len", (("ref", buf),))
            for x in L:
                for y in b.succ(x):
                    if y in L:
                        continue
                    for f in block_facts(ev, ctx, y):
                        if f[0] == "le" and len(f) == 3 and unref_len(f[2]) == lnb:
                            guard_n = unref(f[1])
            if guard_n is None:
                continue
            rb, rt_, n_term = None, None, guard_n
        else:
            (rb, rt_, n_term) = rng[0]
        # the buffer starts empty: `Vec::new()` / `Vec::with_capacity(..)`, and is otherwise only pushed to
        opts = buf[1] if buf[0] == "phi" else (buf,)
        fresh = [o for o in opts if o[0] == "ret" and o[1] in ("std::vec::Vec::new", "std::vec::Vec::with_capacity")]
        rest = [o for o in opts if o not in fresh]
        if len(fresh) != 1 or any(not (o[0] == "call" and o[1] == "Vec::pushed") for o in rest):
            continue
        ires = ev.operand(ctx, {"k": "copy", "place": it["dest"]})
        if unref(ev.operand(ctx, pt["args"][1])) != unref(ev.payload(ctx, ires)):
            continue
        # the push lies on every path from the Some edge of the wrapped next back to the loop header
        some_blocks = [x for x in L if any(f[0] == "is_some" and f[2] is True and f[1] == unref(ires)
                                           for f in block_facts(ev, ctx, x))]
        if pb not in some_blocks:
            continue
        first_some = [x for x in some_blocks if not any(p in some_blocks for p in b.preds()[x])]
        if any(x != pb and b.paths_avoiding(x, {h}, {pb}) for x in first_some):
            continue
        # nothing else in the loop touches the buffer
        READ_ONLY = ("std::vec::Vec::len", "std::vec::Vec::is_empty", "std::vec::Vec::capacity", "std::slice::len")
        if any(bi != pb and c.key not in READ_ONLY and any(unref(ev.operand(ctx, a)) == buf for a in t["args"])
               for bi, t, c in b.calls() if bi in L and not c.indirect):
            continue
        # exits: the round counter is used up, or the wrapped iterator returned None
        rres = unref(ev.operand(ctx, {"k": "copy", "place": rt_["dest"]})) if rt_ is not None else None
        okx = True
        for x in L:
            for y in b.succ(x):
                if y in L or _only_panics_s(b, y):
                    continue
                fs = block_facts(ev, ctx, y)
                if not any(f[0] == "is_some" and f[2] is False and f[1] in (unref(ires), rres) for f in fs) and not (
                        guard_n is not None and any(f[0] == "le" and len(f) == 3 and unref(f[1]) == guard_n
                                                    and unref_len(f[2]) == ("call", "len", (("ref", buf),)) for f in fs)):
                    okx = False
        if okx:
            out.append((buf, n_term, L))
    return out


def counter_loops(env, T, b, ctx):
    """Loops of body b that pull from the wrapped iterator once per round and count the elements pulled:
        let mut i = 0;  while i < n { let Some(x) = iter.next() else { break };  ..;  i += 1 }
    (any spelling: `loop { .. i += 1; if i == n { break } }`). The loop is left either because the counter reached n or on a
    None of the wrapped iterator; hence `i < n` after the loop exactly when the wrapped iterator returned None.
    Returns [(counter term, n term, loop blocks)]."""
    ev = env.ev
    out = []
    for (h, L) in b.natural_loops():
        inner = [(bi, t) for bi, t, c in b.calls() if bi in L and not c.indirect and c.trait == "std::iter::Iterator"
                 and c.name == "next" and c.self_param is not None]
        if len(inner) != 1:
            continue
        ib, it = inner[0]
        ires = unref(ev.operand(ctx, {"k": "copy", "place": it["dest"]}))
        incs = []
        for x in L:
            for st in b.blocks[x]["stmts"]:
                if st["k"] == "assign" and st["rv"]["k"] == "binop" and st["rv"]["op"].startswith("Add") \
                        and st["rv"]["b"].get("k") == "const" and st["rv"]["b"].get("int") == 1 \
                        and st["rv"]["a"]["k"] in ("copy", "move") and not st["rv"]["a"]["place"]["p"]:
                    incs.append((x, st))
        for (xb, st) in incs:
            c_loc, tmp = st["rv"]["a"]["place"]["l"], st["place"]["l"]
            cnt = unref(ev.local(ctx, c_loc))
            if not (cnt[0] == "phi" and any(o in cnt[1] for o in (("int", 0), ("int", 1)))):
                continue
            # the only assignment of the counter in the loop is the result of this addition
            okc = True
            for x in L:
                for s2 in b.blocks[x]["stmts"]:
                    if s2["k"] == "assign" and s2["place"]["l"] == c_loc and not s2["place"]["p"]:
                        rv = s2["rv"]
                        if not (rv["k"] == "use" and rv["op"].get("place", {}).get("l") == tmp):
                            okc = False
            if not okc:
                continue
            # the increment lies under the Some edge of the wrapped next, on every path from there back to the header
            some_blocks = [x for x in L if any(f[0] == "is_some" and f[2] is True and f[1] == ires
                                               for f in block_facts(ev, ctx, x))]
            if xb not in some_blocks:
                continue
            first_some = [x for x in some_blocks if not any(p in some_blocks for p in b.preds()[x])]
            if any(x != xb and b.paths_avoiding(x, {h}, {xb}) for x in first_some):
                continue
            # exits: counter reached n, or the wrapped iterator returned None
            n_term = None
            okx = True
            for x in L:
                for y in b.succ(x):
                    if y in L or _only_panics_s(b, y):
                        continue
                    fs = block_facts(ev, ctx, y)
                    if any(f[0] == "is_some" and f[2] is False and f[1] == ires for f in fs):
                        continue
                    nn = None
                    for f in fs:
                        if len(f) == 3 and f[0] == "le" and _same_cnt(unref(f[2]), cnt):
                            nn = unref(f[1])
                        if len(f) == 3 and f[0] == "eq":
                            for p_, q_ in ((f[1], f[2]), (f[2], f[1])):
                                if _same_cnt(unref(p_), cnt):
                                    nn = unref(q_)
                    if nn is None or (n_term is not None and nn != n_term):
                        okx = False
                    else:
                        n_term = nn
            if okx and n_term is not None:
                out.append((cnt, n_term, L))
    return out


def _same_cnt(a, b):
    """the loop counter as seen inside the loop (after the increment: cyclic + 1) and as the value of the local"""
    if a == b:
        return True
    if b[0] == "phi" and a in b[1] and a[0] == "bin" and a[1] == "Add":
        return True
    return False


def counters_with_callees(env, T, b, ctx, depth=0):
    """counting loops of b, of the crate-local helpers it calls, and of the closures it hands to such helpers
    (`self.with_iter(|it| { while i < n { .. } i })`), all in b's terms"""
    out = list(counter_loops(env, T, b, ctx))
    for bi, t, c in b.calls():
        if b.blocks[bi]["cleanup"]:
            continue
        nctx = env.ev.callee_ctx(ctx, bi)
        if nctx is not None:
            out.extend(counter_loops(env, T, nctx.body, nctx))
            if depth < 2:
                # a closure of the crate invoked inside the helper (the call is devirtualised by callee_ctx)
                for bj, t2, c2 in nctx.body.calls():
                    if not nctx.body.blocks[bj]["cleanup"] and not c2.indirect and c2.trait in (
                            "std::ops::FnOnce", "std::ops::FnMut", "std::ops::Fn"):
                        cctx = env.ev.callee_ctx(nctx, bj)
                        if cctx is not None:
                            out.extend(counter_loops(env, T, cctx.body, cctx))
    return out


def _counter_evidence(cloops, f):
    """fact f is `counter < n` for one of the counting loops"""
    for (cnt, n, _L) in cloops:
        if f[0] == "lt" and len(f) == 3 and unref(f[1]) == cnt and unref(f[2]) == n:
            return True
    return False


def _only_panics_s(b, s):
    seen = set()
    st = [s]
    while st:
        x = st.pop()
        if x in seen:
            continue
        seen.add(x)
        if b.term(x)["k"] == "return":
            return False
        st.extend(b.succ(x))
    return True


def fills_with_callees(env, T, b, ctx):
    """fill loops of body b and of the crate-local helpers it calls (evaluated in the caller's terms)"""
    out = list(fill_loops(env, T, b, ctx))
    for bi, t, c in b.calls():
        if b.blocks[bi]["cleanup"]:
            continue
        nctx = env.ev.callee_ctx(ctx, bi)
        if nctx is not None:
            out.extend(fill_loops(env, T, nctx.body, nctx))
    return out


def _fill_evidence(fills, f, neg=False):
    """is fact f `buf.len() < n` (neg: `n <= buf.len()`) for one of the fill loops?"""
    for (buf, n, _L) in fills:
        ln = ("call", "len", (("ref", buf),))
        if not neg and f[0] == "lt" and len(f) == 3 and unref_len(f[1]) == ln and unref(f[2]) == n:
            return True
        if neg and f[0] == "le" and len(f) == 3 and unref(f[1]) == n and unref_len(f[2]) == ln:
            return True
    return False


def unref_len(t):
    t = unref(t)
    if t[0] == "call" and t[1] == "len" and t[2]:
        return ("call", "len", (("ref", unref(t[2][0])),))
    return t


def _closure_handed_to_helper(env, T, cl, sa):
    """closure cl is created by its parent and passed to a crate-local helper that calls it (not to a std adaptor). Returns
    None when that is not the case, else (ok, text): ok when, in the parent, every path from the helper call to a return
    passes a store of the end flag unless the path is known not to follow a None of the wrapped iterator: the closure's
    result is the result of `next()` itself and the path is under `is_some`, or the closure runs a fill / counting loop and
    the path is under `requested <= obtained`."""
    F, ev = env.F, env.ev
    P = F.bodies.get(cl.parent)
    if P is None:
        return None
    psa = F.impl_self_adt(P) or sa
    pctx = env.ctx(P, psa, T.world)
    site = None
    for bi, t, c in P.calls():
        if P.blocks[bi]["cleanup"] or c.indirect:
            continue
        for a in t["args"]:
            v = ev.operand(pctx, a)
            while v[0] == "ref":
                v = v[1]
            if v[0] == "agg" and v[1] == "closure:" + cl.def_:
                nctx = ev.callee_ctx(pctx, bi)
                if nctx is not None and not (c.trait or "").startswith("std::"):
                    site = (bi, t, nctx)
    if site is None:
        return None
    bi, t, nctx = site
    done_blocks = {e.info["top_bb"] for e in T.direct_events(P, psa) if e.kind == "atomic" and e.info["op"] == "store"
                   and T.role_of(e.info["place"])[0] == "done"}
    tgt = t.get("target")
    if tgt is None:
        return (False, "the helper call in %s does not return" % env.fname(P))
    res_t = unref(ev.local(pctx, t["dest"]["l"])) if not t["dest"]["p"] else None
    feasible_none = set()
    cl_loops = fill_loops(env, T, cl, env.ctx(cl, sa, T.world)) + counter_loops(env, T, cl, env.ctx(cl, sa, T.world))
    if not cl_loops and res_t is not None and res_t[0] == "ret" and "Iterator::next" in str(res_t[1]):
        # the closure hands back what `next()` returned: blocks of the parent where that is known to be Some are not on a
        # None path
        infeasible = {x for x in range(len(P.blocks)) if not P.blocks[x]["cleanup"] and any(
            f[0] == "is_some" and f[2] is True and unref(f[1]) == res_t for f in block_facts(ev, pctx, x))}
    elif cl_loops:
        fills = fills_with_callees(env, T, P, pctx)
        cnts = counters_with_callees(env, T, P, pctx)
        infeasible = set()
        for x in range(len(P.blocks)):
            if P.blocks[x]["cleanup"]:
                continue
            for f in block_facts(ev, pctx, x):
                if _fill_evidence(fills, f, neg=True):
                    infeasible.add(x)
                if f[0] == "le" and len(f) == 3 and any(unref(f[1]) == n_ and unref(f[2]) == c_ for (c_, n_, _L) in cnts):
                    infeasible.add(x)
    else:
        return (False, "%s cannot tell whether the closure saw the end (its result is neither the result of next() nor a "
                       "count of the elements it pulled)" % env.fname(P))
    if tgt in done_blocks or not P.paths_avoiding(tgt, set(P.exits()), done_blocks | infeasible):
        return (True, "%s, which sets the end flag on every path that follows a None" % env.fname(P))
    return (False, "%s can return without setting the end flag: the exhausted iterator is polled again by the next pull"
            % env.fname(P))


def rule_done(env, shared):
    """DONE-EVID: the end flag is set only on evidence (early_exit; the wrapped iterator returned None / a short chunk;
    a panic while the ticket is held).  DONE-SET: on every path where the wrapped iterator returned None the flag is set
    before the function returns."""
    T = _ticket(env)
    out = []
    if not T.ok:
        return [Ob("DONE", "DONE|anchor", "viol", "-", "ticket implementor not found")]
    R, F, ev = env.R, env.F, env.ev
    seen = set()
    for (b, sa) in T.universe:
        for e in T.direct_events(b, sa):
            if not (e.kind == "atomic" and e.info["op"] == "store"):
                continue
            role, adt = T.role_of(e.info["place"])
            if not (role == "done" or (e.info["akind"] == "bool" and adt is None)):
                continue
            # the store is judged in the function it is written in; a trivial setter (one store, nothing else) is
            # judged at its call sites instead
            sb = e.body
            trivial = (not sb.is_closure and len(sb.blocks) <= 3 and len(list(sb.calls())) == 1
                       and receiver_kind(sb, F) == "ref" and (sb.info or {}).get("name") != "early_exit"
                       and not is_exit_fn(env, sb))
            if trivial:
                if not e.info["chain"]:
                    continue
                site_body = e.info["chain"][-1][0]
            else:
                site_body = sb
            if site_body.def_ != b.def_:
                continue
            k = "DONE-EVID|%s" % env.fname(b)
            if k in seen:
                continue
            info = (F.bodies.get(b.root, b) if b.is_closure else b).info or {}
            fs = env.event_facts(e)
            txt = [(f[0], fmt(f[1]) if len(f) > 1 and isinstance(f[1], tuple) else None, f[2] if len(f) > 2 else None)
                   for f in fs]
            why = None
            if info.get("name") == "early_exit" or is_exit_fn(env, F.bodies.get(b.root, b) if b.is_closure else b):
                why = "early_exit"
            elif info.get("name") == "drop" and any(f[0] == "bool" and f[2] is True and "panicking" in fmt(f[1]) for f in fs):
                why = "guard dropped while panicking"
            elif any(f[0] == "is_some" and f[2] is False and "Iterator::next" in fmt(f[1]) for f in fs):
                why = "the wrapped iterator returned None"
            elif any(_fill_evidence(fills_with_callees(env, T, e.info["chain"][-1][0] if (trivial and e.info["chain"]) else sb,
                                                       e.info["chain"][-1][2] if (trivial and e.info["chain"]) else e.ctx), f)
                     for f in fs):
                why = "the fill loop pushed fewer elements than it had rounds: it was left on None"
            elif any(_counter_evidence(counters_with_callees(env, T, b, env.ctx(b, sa, T.world)), f) for f in fs):
                why = "the counting loop pulled fewer elements than it was to pull: it was left on None"
            elif any(f[0] in ("lt", "eq", "ne") and len(f) == 3 and "Iterator::collect" in fmt(f[1]) + fmt(f[2])
                     and ("len(" in fmt(f[1]) or "len(" in fmt(f[2])) for f in fs):
                # fewer elements collected than requested; n != 0 must be known (else an empty request looks like the end)
                nz = any(f[0] == "ne" and len(f) == 3 and f[2] == ("int", 0) and unref(f[1])[0] == "param" for f in fs)
                lt = any(f[0] == "lt" and len(f) == 3 and "Iterator::collect" in fmt(f[1]) for f in fs)
                if nz or lt and any(f[0] == "ne" and f[2] == ("int", 0) for f in fs if len(f) == 3):
                    why = "fewer elements collected than requested (n != 0)"
                else:
                    why = None
            seen.add(k)
            if not why and not b.is_closure and not (b.info or {}).get("exported") \
                    and (b.info or {}).get("container") in ("inherent", "free"):
                # a crate-private helper that sets the flag on a condition over its parameters (`if pulled < reserved`): the
                # evidence is what its callers pass — judged at every call site, in the caller's terms
                sites = []
                for (cb, csa) in T.universe:
                    if cb.def_ == b.def_:
                        continue
                    for e2 in T.direct_events(cb, csa):
                        if e2.kind == "atomic" and e2.body.def_ == e.body.def_ and e2.bb == e.bb and e2.info["chain"]:
                            ch = e2.info["chain"]
                            nxt = ch[1][0] if len(ch) > 1 else e2.body
                            if nxt.def_ == b.def_:
                                sites.append((cb, csa, e2))
                okc = bool(sites)
                for (cb, csa, e2) in sites:
                    fs2 = env.event_facts(e2)
                    cctx2 = env.ctx(cb, csa, T.world)
                    w2 = None
                    if any(f[0] == "is_some" and f[2] is False and "Iterator::next" in fmt(f[1]) for f in fs2):
                        w2 = "None"
                    elif any(_fill_evidence(fills_with_callees(env, T, cb, cctx2), f) for f in fs2):
                        w2 = "fill"
                    elif any(_counter_evidence(counters_with_callees(env, T, cb, cctx2), f) for f in fs2):
                        w2 = "count"
                    elif any(f[0] == "lt" and len(f) == 3 and "Iterator::collect" in fmt(f[1]) and "len(" in fmt(f[1]) for f in fs2) \
                            and any(f[0] == "ne" and len(f) == 3 and f[2] == ("int", 0) for f in fs2):
                        w2 = "collect"
                    if w2 is None:
                        okc = False
                if okc:
                    why = "at every call site of the helper: fewer elements were pulled than reserved only after a None of " \
                          "the wrapped iterator (%d sites)" % len(sites)
            if why:
                out.append(Ob("DONE-EVID", k, "ok", e.loc(), "end flag set on evidence: " + why, True))
            else:
                out.append(Ob("DONE-EVID", k, "viol", e.loc(),
                              "the end flag is set in %s without evidence that the wrapped iterator is exhausted "
                              "(guards: %s): the iteration ends early and remaining elements are lost" % (
                                  env.fname(b), [x for x in txt if x[0] in ("lt", "eq", "ne", "is_some", "bool")][:4])))
    # DONE-ORDER: the end flag is stored *before* the ticket is handed on. A store that follows the release on a path lets the
    # next ticket holder be admitted with the flag still false: it polls the wrapped iterator again after it returned None
    # (a non-fused source yields elements after the end), and reports the end only later. Judged in the function whose own
    # blocks (or direct calls) contain both; a store and a release inside one loop belong to different turns.
    for (b, sa) in T.universe:
        evs = T.direct_events(b, sa)
        stores = [e for e in evs if e.kind == "atomic" and e.info["op"] == "store" and T.role_of(e.info["place"])[0] == "done"
                  and not e.body.blocks[e.bb]["cleanup"]]
        rels = [e for e in evs if e.kind == "atomic" and e.info["op"] in ("fetch_add", "store", "swap", "fetch_max")
                and T.role_of(e.info["place"]) == ("serving", T.adt) and not e.body.blocks[e.bb]["cleanup"]]
        if not stores or not rels:
            continue
        k = "DONE-ORDER|%s" % env.fname(b)
        bad = None
        judged = False
        loops = b.natural_loops()
        for es in stores:
            sb_ = es.info["top_bb"]
            for er in rels:
                rb = er.info["top_bb"]
                if rb == sb_:
                    continue  # inside one callee: judged there
                if any(rb in lb and sb_ in lb for (_h, lb) in loops):
                    continue
                judged = True
                tgt = b.term(rb).get("target")
                if tgt is not None and (sb_ == tgt or sb_ in b.reachable(tgt)):
                    bad = es
        if not judged:
            continue
        if bad is not None:
            out.append(Ob("DONE-ORDER", k, "viol", bad.loc(),
                          "%s sets the end flag only after it has handed the ticket on: the next ticket holder is admitted with "
                          "the flag still false and polls the wrapped iterator again after it returned None (elements of a "
                          "non-fused source appear after the end; the end is reported late)" % env.fname(b)))
        else:
            out.append(Ob("DONE-ORDER", k, "ok", stores[0].loc(), "the end flag is stored before the ticket is handed on", True))
    # DONE-SET: None edge of the inner next must reach a flag store before returning
    for (b, sa) in T.universe:
        ctx = env.ctx(b, sa, T.world)
        evs = T.direct_events(b, sa)
        done_blocks = set()
        for e in evs:
            if e.kind == "atomic" and e.info["op"] == "store":
                role, adt = T.role_of(e.info["place"])
                if role == "done":
                    done_blocks.add(e.info["top_bb"])
        handed = _closure_handed_to_helper(env, T, b, sa) if b.is_closure else None
        for e in evs:
            if e.info["chain"] or not T.is_inner_next(e):
                continue
            if handed is not None:
                # a closure that its parent hands to a private helper (`self.with_iter(|it| ..)`): what the closure learns
                # about the end of the wrapped iterator is acted on by the parent, which is judged in the parent's terms
                k = "DONE-SET|%s" % env.fname(b)
                if k in seen:
                    continue
                seen.add(k)
                okp, whyp = handed
                out.append(Ob("DONE-SET", k, "ok" if okp else "viol", e.loc(),
                              "the closure's result goes back to %s" % whyp if okp else
                              "after the wrapped iterator returned None inside this closure, %s" % whyp, True))
                continue
            # successor blocks under "result is None"
            tgt = b.term(e.bb).get("target")
            if tgt is None:
                continue
            none_blocks = []
            # (the result of this very call: a loop may also run a std iterator over its buffer, `for slot in buf.iter_mut()`)
            dest = b.term(e.bb).get("dest")
            res_t = unref(ev.local(ctx, dest["l"])) if dest is not None and not dest["p"] else None
            for bb in b.reachable(tgt):
                for f in block_facts(ev, ctx, bb):
                    if f[0] == "is_some" and f[2] is False and "Iterator::next" in fmt(f[1]) \
                            and (res_t is None or unref(f[1]) == res_t or res_t[0] not in ("ret", "call")):
                        none_blocks.append(bb)
            k = "DONE-SET|%s" % env.fname(b)
            if not none_blocks and not b.is_closure and (b.info or {}).get("container") in ("inherent", "free") \
                    and not (b.info or {}).get("exported") and res_t is not None and unref(ev.local(ctx, 0)) == res_t:
                # a private helper that hands back what `next()` returned (`unsafe fn pull_one(&self) -> Option<T>`): every
                # caller must set the flag on the paths where that value is None
                from r_ticket import all_callers
                callers = [(cb, cbb) for (cb, cbb) in all_callers(env, b.def_) if cb.def_ != b.def_]
                okc = bool(callers)
                for (cb, cbb) in callers:
                    csa = F.impl_self_adt(cb) or sa
                    cctx = env.ctx(cb, csa, T.world)
                    tcall = cb.term(cbb)
                    rt_c = unref(ev.local(cctx, tcall["dest"]["l"])) if not tcall["dest"]["p"] else None
                    cdone = {e2.info["top_bb"] for e2 in T.direct_events(cb, csa) if e2.kind == "atomic"
                             and e2.info["op"] == "store" and T.role_of(e2.info["place"])[0] == "done"}
                    cinf = {x for x in range(len(cb.blocks)) if not cb.blocks[x]["cleanup"] and rt_c is not None and any(
                        f[0] == "is_some" and f[2] is True and unref(f[1]) == rt_c for f in block_facts(ev, cctx, x))}
                    tgt2 = tcall.get("target")
                    if tgt2 is None or (tgt2 not in cdone and (tgt2 in cb.exits() or
                                                                cb.paths_avoiding(tgt2, set(cb.exits()), cdone | cinf))):
                        okc = False
                if k in seen:
                    continue
                seen.add(k)
                if okc:
                    out.append(Ob("DONE-SET", k, "ok", e.loc(), "the helper hands back what next() returned; every caller sets the "
                                  "end flag where that is None", True))
                    continue
                seen.discard(k)
            if not none_blocks:
                # the result is consumed by iterator adaptors (take_while/collect): evidence is the collected length
                has_len_guard = False
                for d in done_blocks:
                    for f in block_facts(ev, ctx, d):
                        if f[0] == "lt" and len(f) == 3 and "Iterator::collect" in fmt(f[1]):
                            has_len_guard = True
                # closures invoked by the adaptor chain belong to their parent: judge the parent
                if b.is_closure:
                    pb = F.bodies.get(b.parent)
                    if pb is not None:
                        def len_guard_in(xb):
                            for e2 in T.direct_events(xb, F.impl_self_adt(xb) or sa):
                                if e2.kind == "atomic" and e2.info["op"] == "store" and T.role_of(e2.info["place"])[0] == "done":
                                    for f in env.event_facts(e2):
                                        if f[0] == "lt" and len(f) == 3 and "Iterator::collect" in fmt(f[1]):
                                            return True
                            return False
                        has_len_guard = has_len_guard or len_guard_in(pb)
                        # (the chain may be built inside a closure that is itself handed to a helper: the collected length
                        #  is then judged by the function that created that closure)
                        up, hops_ = pb, 0
                        while not has_len_guard and up is not None and up.is_closure and hops_ < 3:
                            up = F.bodies.get(up.parent)
                            hops_ += 1
                            if up is not None and len_guard_in(up):
                                has_len_guard = True
                                pb = up
                        if not has_len_guard and not pb.is_closure and not (pb.info or {}).get("exported"):
                            # the parent only builds the lazy chain and returns it: whoever collects it sets the flag
                            from r_ticket import all_callers
                            cs = [cb for (cb, _bb) in all_callers(env, pb.def_) if cb.def_ != pb.def_]
                            has_len_guard = bool(cs) and all(len_guard_in(cb) for cb in cs)
                        k = "DONE-SET|%s" % env.fname(pb)
                if k in seen:
                    continue
                seen.add(k)
                if has_len_guard:
                    out.append(Ob("DONE-SET", k, "ok", e.loc(),
                                  "the end flag is set whenever fewer elements than requested were collected", True))
                else:
                    out.append(Ob("DONE-SET", k, "viol", e.loc(),
                                  "the wrapped iterator's None is not turned into the end flag on this pull path: the "
                                  "exhausted iterator is polled again by the next pull (elements can appear after the end "
                                  "was reported; has_more keeps answering Maybe)"))
                continue
            if k in seen:
                continue
            seen.add(k)
            first = [x for x in none_blocks if not any(y != x and y in none_blocks and b.dominates(y, x) for y in none_blocks)]
            bad = False
            # after a fill loop was left on None, `n <= buf.len()` cannot hold: blocks under that fact are not on a path
            fills = fill_loops(env, T, b, ctx)
            infeasible = set()
            if fills:
                for x in range(len(b.blocks)):
                    if not b.blocks[x]["cleanup"] and any(_fill_evidence(fills, f, neg=True) for f in block_facts(ev, ctx, x)):
                        infeasible.add(x)
            # a monotone flag set on the None path (`exhausted = true; break`): the edges on which it is still found unset
            # are not on a path from there
            from guards import monotone_flag
            flag_inf = {}
            for l_ in range(len(b.locals)):
                mf = monotone_flag(b, l_)
                if mf is None:
                    continue
                unset_edges = set()
                for x in range(len(b.blocks)):
                    tx = b.blocks[x]["term"]
                    if b.blocks[x]["cleanup"] or tx["k"] != "switch" or tx["discr"]["k"] not in ("copy", "move") \
                            or tx["discr"]["place"]["p"]:
                        continue
                    dl_ = tx["discr"]["place"]["l"]
                    # the switch reads the flag itself or a plain copy of it
                    src = dl_
                    dd = [d for d in b.defs().get(dl_, []) if not b.blocks[d[0]]["cleanup"]]
                    if dl_ != l_ and len(dd) == 1 and dd[0][2] == "assign" and dd[0][3]["k"] == "use" \
                            and dd[0][3]["op"].get("k") in ("copy", "move") and not dd[0][3]["op"]["place"]["p"]:
                        src = dd[0][3]["op"]["place"]["l"]
                    if src != l_:
                        continue
                    setv = 1 if mf[0] else 0
                    for v_, tb_ in tx["targets"]:
                        if v_ != setv:
                            unset_edges.add(tb_)
                    if not any(v_ == setv for v_, _t in tx["targets"]):
                        pass
                    elif tx["otherwise"] not in [tb_ for v_, tb_ in tx["targets"]] and setv not in [v_ for v_, _t in tx["targets"]]:
                        pass
                    if setv in [v_ for v_, _t in tx["targets"]]:
                        unset_edges.add(tx["otherwise"])
                flag_inf[l_] = (set(mf[1]), unset_edges)
            for s in first:
                if s in done_blocks:
                    continue
                extra_inf = set()
                for l_, (setters, unset_edges) in flag_inf.items():
                    # every path from s sets the flag before it can reach a test of it
                    if any(sb_ == s or (b.dominates(s, sb_) and not b.paths_avoiding(s, unset_edges, {sb_})) for sb_ in setters):
                        extra_inf |= unset_edges
                if b.paths_avoiding(s, set(b.exits()), done_blocks | infeasible | extra_inf):
                    bad = True
            if bad and not b.is_closure and (b.info or {}).get("container") in ("inherent", "free") \
                    and not (b.info or {}).get("exported"):
                # a private helper that only fills a buffer: its callers must set the flag whenever the fill loop was left on
                # None, which they can tell from the length of what it returned
                from r_ticket import all_callers
                callers = [(cb, cbb) for (cb, cbb) in all_callers(env, b.def_) if cb.def_ != b.def_]
                okc = bool(callers)
                for (cb, cbb) in callers:
                    csa = F.impl_self_adt(cb) or sa
                    cctx = env.ctx(cb, csa, T.world)
                    nctx = ev.callee_ctx(cctx, cbb)
                    cfills = fill_loops(env, T, b, nctx) if nctx is not None else []
                    cdone = {e2.info["top_bb"] for e2 in T.direct_events(cb, csa) if e2.kind == "atomic"
                             and e2.info["op"] == "store" and T.role_of(e2.info["place"])[0] == "done"}
                    cinf = set()
                    for x in range(len(cb.blocks)):
                        if not cb.blocks[x]["cleanup"] and any(_fill_evidence(cfills, f, neg=True) for f in block_facts(ev, cctx, x)):
                            cinf.add(x)
                    tgt2 = cb.term(cbb).get("target")
                    if not cfills or tgt2 is None or cb.paths_avoiding(tgt2, set(cb.exits()), cdone | cinf) or tgt2 in cb.exits():
                        okc = False
                if okc:
                    bad = False
                    out.append(Ob("DONE-SET", k, "ok", e.loc(), "the helper fills a buffer; every caller sets the end flag whenever "
                                  "fewer elements than requested came back", True))
                    continue
            if bad:
                out.append(Ob("DONE-SET", k, "viol", e.loc(),
                              "after the wrapped iterator returned None, %s can return without setting the end flag: the "
                              "exhausted iterator is polled again by the next pull" % env.fname(b)))
            else:
                out.append(Ob("DONE-SET", k, "ok", e.loc(), "every path after a None of the wrapped iterator sets the end flag",
                              True))
    return out
