"""OWN (ownership ledger of consumed storage), LEAK (release of owned heap memory), PRE (preconditions of unsafe std
functions), for the consuming implementors (mechanism M3)."""
from env import Ob
from guards import block_facts, unref
from terms import fmt, subterms
from roles import place_path
from r_m1 import _m1, CProver, cprover, storage_len, rewrite, begin_forms
from r_ticket import receiver_kind, exclusive_only, all_callers

LEAK_PRIMS = ("std::mem::forget", "std::boxed::Box::leak", "std::vec::Vec::leak", "std::boxed::Box::into_raw",
              "std::vec::Vec::into_raw_parts", "std::mem::ManuallyDrop::new", "std::rc::Rc::into_raw",
              "std::sync::Arc::into_raw", "std::string::String::leak", "std::string::String::into_raw_parts")


def _consuming(env):
    return [(adt, r) for adt, r in env.R.impl.items() if r.get("consuming")]


def _alias_locals(b, l):
    """locals that receive `move _l` (transitively)"""
    out = {l}
    changed = True
    while changed:
        changed = False
        for bi, blk in enumerate(b.blocks):
            for s in blk["stmts"]:
                if s["k"] == "assign" and s["rv"]["k"] == "use" and s["rv"]["op"]["k"] in ("move", "copy") \
                        and not s["rv"]["op"]["place"]["p"] and s["rv"]["op"]["place"]["l"] in out \
                        and not s["place"]["p"] and s["place"]["l"] not in out:
                    out.add(s["place"]["l"])
                    changed = True
    return out


def rule_own(env, shared):
    out = []
    R, F, ev = env.R, env.F, env.ev
    m = _m1(env)
    cons = _consuming(env)
    if not cons:
        return [Ob("OWN", "OWN|anchor", "viol", "-", "no consuming implementor found")]
    for adt, r in cons:
        nm = r["name"]
        w = env.world_of(adt)
        own_bodies = [b for b in F.non_test_bodies() if F.impl_self_adt(b) == adt or F.impl_self_adt(b) == r.get("puller")]
        # ---- (a) move-out sites: raw reads of storage
        reads = []
        for b in own_bodies:
            for e in env.flat_events(b, F.impl_self_adt(b), w, max_depth=0):
                if e.kind == "call" and e.callee.key in ("std::ptr::const_ptr::read", "std::ptr::mut_ptr::read",
                                                         "std::ptr::read", "std::ptr::read_unaligned",
                                                         "std::ptr::read_volatile") and e.args:
                    role, a2 = R.classify(e.args[0])
                    if role == "store":
                        reads.append((b, e))
        for (b, e) in reads:
            k = "OWN.a|%s|%s|move-out" % (nm, env.fname(b))
            root = F.bodies.get(b.root, b) if b.is_closure else b
            if exclusive_only(env, root):
                # remainder: index must range over [split index, LEN)
                okk = False
                off = None
                for x in subterms(e.args[0]):
                    if x[0] == "call" and x[1] == "ptr_add":
                        off = unref(x[2][1])
                # the closure parameter of a map over Range{left, N}
                if b.is_closure and off == ("param", 2):
                    pb = F.bodies[b.parent]
                    pctx = env.ctx(pb, adt, w)
                    for bi, t, c in pb.calls():
                        if c.trait == "std::iter::Iterator" and c.name == "map":
                            src = unref(ev.operand(pctx, t["args"][0]))
                            if src[0] == "agg" and src[1].endswith("Range::Range"):
                                lo, hi = unref(src[2][0]), unref(src[2][1])
                                Lc = m.canon(r["len_term"])
                                if m.canon(hi) == Lc and lo[0] == "param":
                                    okk = True
                out.append(Ob("OWN.a", k, "ok" if okk else "viol", e.loc(),
                              "remainder moved out element-wise over [split index, LEN) with exclusive access" if okk else
                              "a raw element read in an exclusive-access helper of %s does not range over [split index, LEN)" % nm,
                              True))
            else:
                # concurrent path: covered by PROV (offset = reserved index) and CLAMP (index < LEN) in C01/C08
                out.append(Ob("OWN.a", k, "ok", e.loc(),
                              "single move-out on a pull path (index = reserved index: PROV; index < LEN: CLAMP)"))
        if not reads:
            out.append(Ob("OWN.a", "OWN.a|%s|no-move-out" % nm, "viol", "-", "no raw element read found for %s (anchor lost)" % nm))
        # ---- (b) alias owners never dropped in place
        for b in own_bodies:
            for bi, t, c in b.calls():
                if b.blocks[bi]["cleanup"] or not c.key.endswith("Vec::from_raw_parts"):
                    continue
                ctx = env.ctx(b, F.impl_self_adt(b), w)
                p0 = ev.operand(ctx, t["args"][0])
                role, a2 = R.classify(p0)
                if role != "store":
                    continue
                k = "OWN.b|%s|%s|alias-owner" % (nm, env.fname(b))
                dl = t["dest"]["l"]
                al = _alias_locals(b, dl)
                bad = None
                for bj, blk in enumerate(b.blocks):
                    if blk["cleanup"]:
                        continue
                    tt = blk["term"]
                    if tt["k"] == "drop" and not tt["place"]["p"] and tt["place"]["l"] in al:
                        bad = b.file_line(tt["loc"])
                if bad:
                    out.append(Ob("OWN.b", k, "viol", bad,
                                  "a Vec view built with from_raw_parts over the shared storage of %s goes out of scope (is "
                                  "dropped) in %s: it drops elements it does not own exclusively (already delivered ones are "
                                  "dropped twice)" % (nm, env.fname(b))))
                else:
                    out.append(Ob("OWN.b", k, "ok", b.file_line(t["loc"]),
                                  "the alias view is moved out of its creator (into the chunk iterator), never dropped in place",
                                  True))
        # ---- (c) Drop impl and remainder split
        a = F.adts.get(adt)
        dfn = a.get("drop_fn") if a else None
        k = "OWN.c|%s|drop" % nm
        if not dfn or dfn not in F.bodies:
            out.append(Ob("OWN.c", k, "viol", "-",
                          "%s keeps its elements in ManuallyDrop storage but has no Drop impl: undelivered elements are never "
                          "dropped" % nm))
        else:
            db = F.bodies[dfn]
            dctx = env.ctx(db, adt, w)
            Lc = m.canon(r["len_term"])
            # remainder-split = crate fn of the implementor called from Drop with an argument derived from a POS load
            rs_call = None
            for bi, t, c in db.calls():
                d = F.resolve_callee(c, adt, None)
                if d and F.impl_self_adt(F.bodies[d]) == adt and len(t["args"]) >= 2:
                    a1 = ev.operand(dctx, t["args"][1])
                    lds = [x for x in subterms(a1) if x[0] == "atomic" and x[1] == "load" and R.classify(x[2])[0] == "pos"]
                    if lds:
                        rs_call = (bi, t, F.bodies[d], a1, lds)
            if rs_call is None:
                out.append(Ob("OWN.c", k, "viol", db.file_line(),
                              "Drop of %s does not hand the position counter to a remainder split: undelivered elements are "
                              "not dropped (or delivered ones are)" % nm))
            else:
                bi, t, rsb, a1, lds = rs_call
                a1c = m.canon(unref(a1))
                ldc = m.canon(lds[0])
                arith = any(x[0] == "bin" and x[1] in ("Add", "Sub", "Mul") or
                            (x[0] == "call" and x[1] in ("saturating_add", "saturating_sub", "wrapping_add", "wrapping_sub"))
                            for x in subterms(a1c))
                clamped = a1c[0] == "call" and a1c[1] == "min" and Lc in [m.canon(unref(y)) for y in a1c[2]]
                facts = [tuple(m.canon(x) if isinstance(x, tuple) else x for x in f) for f in block_facts(ev, dctx, bi)]
                guarded = CProver(facts, ev, dctx).le(ldc, Lc)
                if len(lds) != 1 or arith or not (a1c == ldc or clamped):
                    out.append(Ob("OWN.c", k, "viol", db.file_line(t["loc"]),
                                  "Drop of %s splits the storage at %s instead of at the position counter itself: elements are "
                                  "dropped twice or not at all" % (nm, fmt(a1c)[:100])))
                elif not (clamped or guarded):
                    out.append(Ob("OWN.c", k, "viol", db.file_line(t["loc"]),
                                  "Drop of %s passes the raw position counter to the remainder split without a guard/clamp "
                                  "to LEN (the counter overshoots the length after pulls past the end)" % nm))
                else:
                    # paths that skip the split must know counter > LEN
                    bad = False
                    if not clamped:
                        for bb in db.reachable(0):
                            if db.blocks[bb]["cleanup"] or bb == bi:
                                continue
                            if bi in db.reachable(bb):
                                continue  # before the split
                            if bb in db.reachable(bi):
                                continue  # after the split
                            fs = [tuple(m.canon(x) if isinstance(x, tuple) else x for x in f) for f in block_facts(ev, dctx, bb)]
                            if not CProver(fs, ev, dctx).lt(Lc, ldc):
                                bad = True
                    if bad:
                        out.append(Ob("OWN.c", k, "viol", db.file_line(t["loc"]),
                                      "Drop of %s skips the remainder split on a path where the position counter is not known to "
                                      "exceed LEN: undelivered elements leak" % nm))
                    else:
                        out.append(Ob("OWN.c", k, "ok", db.file_line(t["loc"]),
                                      "Drop splits at the position counter (one read, no arithmetic, %s) and drops the remainder"
                                      % ("clamped" if clamped else "guarded by counter <= LEN; skipped only when counter > LEN"),
                                      True))
                # the remainder split uses its parameter as split point without arithmetic
                k2 = "OWN.c|%s|remainder-split" % nm
                rctx = env.ctx(rsb, adt, w)
                rt = ev.local(rctx, 0)
                p2 = ("param", 2)
                uses = [x for x in subterms(rt) if x == p2]
                arith2 = False
                for x in subterms(rt):
                    if x[0] == "bin" and x[1] in ("Add", "Sub", "Mul") and (p2 in (unref(x[2]), unref(x[3]))):
                        arith2 = True
                    if x[0] == "call" and x[1] in ("saturating_add", "saturating_sub") and p2 in [unref(y) for y in x[2]]:
                        arith2 = True
                okk = bool(uses) and not arith2 and exclusive_only(env, rsb)
                out.append(Ob("OWN.c", k2, "ok" if okk else "viol", rsb.file_line(),
                              "remainder split uses its split index unchanged and runs only with exclusive access" if okk else
                              "the remainder split of %s %s" % (nm, "modifies its split index" if arith2 else
                                                                "is reachable from shared (&self) callers or ignores its index"),
                              True))
        # ---- (d) conservation: no blind store to POS from shared paths; early_exit drops exactly [reserved, LEN)
        eb = R.method_body(R.T_ATOMIC, "early_exit", adt)
        k = "OWN.d|%s|early_exit" % nm
        if eb is None:
            out.append(Ob("OWN.d", k, "viol", "-", "early_exit of %s not found" % nm))
        else:
            evs = env.flat_events(eb, adt, w)
            stores = [e for e in evs if e.kind == "atomic" and e.info["op"] == "store" and R.classify(e.info["place"])[0] == "pos"]
            resv = [e for e in evs if e.kind == "atomic" and e.info["op"] == "fetch_add" and R.classify(e.info["place"])[0] == "pos"]
            drops = [e for e in evs if e.kind == "call" and e.callee.key in ("std::ptr::drop_in_place",)]
            if stores:
                out.append(Ob("OWN.d", k, "viol", stores[0].loc(),
                              "early_exit of the consuming iterator %s overwrites the position counter with a plain store: the "
                              "previous value is lost, so the skipped elements [old, LEN) are neither delivered nor dropped — "
                              "or, if they are dropped from a separately loaded value, a racing pull delivers one of them too"
                              % nm))
            elif len(resv) != 1 or len(drops) != 1:
                out.append(Ob("OWN.d", k, "viol", eb.file_line(),
                              "early_exit of %s does not reserve the remaining positions with one atomic read-modify-write and "
                              "drop exactly those (reservations: %d, drops: %d)" % (nm, len(resv), len(drops))))
            else:
                e = drops[0]
                rterm = ("atomic", "fetch_add", resv[0].args[0], resv[0].args[1:], resv[0].ctx.site +
                         ((resv[0].body.def_, resv[0].bb),))
                sl = unref(e.args[0])
                good = False
                why = fmt(sl)[:160]
                if sl[0] == "call" and sl[1] == "slice_from_raw_parts" and len(sl[2]) == 2:
                    ptr, ln = unref(sl[2][0]), m.canon(unref(sl[2][1]))
                    off = None
                    for x in subterms(ptr):
                        if x[0] == "call" and x[1] == "ptr_add":
                            off = unref(x[2][1])
                    Lc = m.canon(r["len_term"])
                    isb = begin_forms(ev, e.ctx, rterm, None)
                    offp = off
                    if off is not None and off[0] == "payload":
                        offp = ev.payload(e.ctx, off[1])
                    if offp is not None and (isb(offp) or offp == rterm) and R.classify(ptr)[0] == "store":
                        if ln[0] == "bin" and ln[1] == "Sub" and ln[2] == Lc and m.canon(unref(ln[3])) in (m.canon(off), m.canon(offp)):
                            good = True
                out.append(Ob("OWN.d", k, "ok" if good else "viol", e.loc(),
                              "early_exit drops exactly [reserved begin, LEN) of the storage" if good else
                              "early_exit of %s does not drop exactly the interval [reserved begin, LEN): %s" % (nm, why), True))
        # stores to POS in any other shared-path function of a consuming implementor
        for b in own_bodies:
            if eb is not None and b.def_ == eb.def_:
                continue
            for e in env.flat_events(b, F.impl_self_adt(b), w, max_depth=1):
                if e.kind == "atomic" and e.info["op"] == "store" and R.classify(e.info["place"]) == ("pos", adt):
                    k = "OWN.d|%s|%s|store(pos)" % (nm, env.fname(b))
                    if any(o.key == k for o in out):
                        continue
                    root = F.bodies.get(b.root, b) if b.is_closure else b
                    if receiver_kind(root, F) in ("value", "mut"):
                        # exclusive: allowed when the remainder has been moved out before (into_seq_iter)
                        out.append(Ob("OWN.d", k, "ok", e.loc(), "counter set with exclusive access after the remainder was taken"))
                    else:
                        out.append(Ob("OWN.d", k, "viol", e.loc(),
                                      "%s stores to the position counter of a consuming iterator from a shared path" % env.fname(b)))
    return out


def rule_leak(env, shared):
    """LEAK: every ManuallyDrop field that owns heap memory is released on every path of Drop::drop; leak primitives are
    used only in the justified places (constructors wrapping the collection, the remainder split's re-wrap)."""
    out = []
    R, F, ev = env.R, env.F, env.ev
    n_fields = 0
    for path, a in F.adts.items():
        if a["kind"] != "Struct":
            continue
        for fi, f in enumerate(a["variants"][0]["fields"]):
            s = f["ty"]["s"]
            if "ManuallyDrop<" not in s:
                continue
            heap = any(h in s for h in ("std::vec::Vec<", "std::boxed::Box<", "std::string::String", "std::collections::"))
            if not heap:
                continue
            n_fields += 1
            nm = a["name"]
            k = "LEAK|%s|%s" % (nm, f["name"])
            dfn = a.get("drop_fn")
            if not dfn or dfn not in F.bodies:
                out.append(Ob("LEAK", k, "viol", "-", "%s.%s owns heap memory inside ManuallyDrop but %s has no Drop impl" % (
                    nm, f["name"], nm)))
                continue
            db = F.bodies[dfn]
            ctx = env.ctx(db, path, env.world_of(path))
            # take / drop events on that field, directly in Drop::drop
            takes = []
            for bi, t, c in db.calls():
                if db.blocks[bi]["cleanup"]:
                    continue
                if c.key in ("std::mem::ManuallyDrop::take", "std::mem::ManuallyDrop::drop", "std::mem::ManuallyDrop::into_inner"):
                    a0 = ev.operand(ctx, t["args"][0])
                    root, fl = place_path(a0)
                    if any(x[0] == fi and x[2] == path for x in fl):
                        takes.append((bi, t, c))
            if not takes:
                out.append(Ob("LEAK", k, "viol", db.file_line(),
                              "Drop of %s never takes `%s` out of its ManuallyDrop: the allocation of the consumed collection "
                              "is never freed" % (nm, f["name"])))
                continue
            tb = {x[0] for x in takes}
            exits = set(db.exits())
            if any(e in tb for e in exits):
                bypass = False
            else:
                bypass = db.paths_avoiding(0, exits, tb)
            if bypass and 0 not in tb:
                out.append(Ob("LEAK", k, "viol", db.file_line(),
                              "Drop of %s releases `%s` only on some paths: on the others the allocation leaks" % (nm, f["name"])))
                continue
            # the taken value must be dropped (scope end) and not forgotten / re-wrapped
            bad = None
            okdrop = False
            for (bi, t, c) in takes:
                if c.key.endswith("ManuallyDrop::drop"):
                    okdrop = True
                    continue
                dl = t["dest"]["l"]
                al = _alias_locals(db, dl)
                for bj, blk in enumerate(db.blocks):
                    tt = blk["term"]
                    if blk["cleanup"]:
                        continue
                    if tt["k"] == "drop" and not tt["place"]["p"] and tt["place"]["l"] in al:
                        okdrop = True
                    if tt["k"] == "call":
                        c2 = db.callee(bj)
                        if c2 and not c2.indirect and c2.key in LEAK_PRIMS:
                            for ao in tt["args"]:
                                if ao["k"] in ("move", "copy") and not ao["place"]["p"] and ao["place"]["l"] in al:
                                    bad = (db.file_line(tt["loc"]), c2.key)
            if bad:
                out.append(Ob("LEAK", k, "viol", bad[0], "Drop of %s takes `%s` but passes it to %s: the allocation leaks" % (
                    nm, f["name"], bad[1])))
            elif not okdrop:
                out.append(Ob("LEAK", k, "viol", db.file_line(), "Drop of %s takes `%s` but never drops the taken value" % (
                    nm, f["name"])))
            else:
                out.append(Ob("LEAK", k, "ok", db.file_line(), "allocation taken out of ManuallyDrop and dropped on every path of Drop",
                              True))
    if n_fields == 0:
        out.append(Ob("LEAK", "LEAK|no-fields", "viol", "-", "no heap-owning ManuallyDrop field found (anchor lost)"))
    # leak primitives
    for b in F.non_test_bodies():
        for bi, t, c in b.calls():
            if b.blocks[bi]["cleanup"] or c.indirect or c.key not in LEAK_PRIMS:
                continue
            sa = F.impl_self_adt(b)
            k = "LEAK.prim|%s|%s" % (env.fname(b), c.key.split("::")[-2] + "::" + c.key.split("::")[-1])
            if any(o.key == k for o in out):
                continue
            ok = False
            why = ""
            r = R.impl.get(sa)
            if c.key.endswith("ManuallyDrop::new") and r is not None:
                ctx = env.ctx(b, sa, None)
                # constructor: the wrapped value is a parameter (the collection being consumed) stored into the struct
                a0 = unref(ev.operand(ctx, t["args"][0]))
                if a0[0] == "param" and receiver_kind(b, F) is None:
                    ok, why = True, "constructor wraps the consumed collection (released by Drop: rule LEAK)"
                elif exclusive_only(env, b):
                    # re-wrap inside the remainder split: the value wrapped must come from ManuallyDrop::take of the same field
                    src = fmt(a0)
                    if "ManuallyDrop::take" in src:
                        ok, why = True, "re-wrap of the taken storage inside the exclusive remainder split (released by Drop)"
            if ok:
                out.append(Ob("LEAK.prim", k, "ok", b.file_line(t["loc"]), why))
            else:
                out.append(Ob("LEAK.prim", k, "viol", b.file_line(t["loc"]),
                              "%s calls the leak primitive %s outside the justified places (constructors, remainder split): "
                              "whatever it is applied to is never released" % (env.fname(b), c.key)))
    return out
