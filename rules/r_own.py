"""OWN (ownership ledger of consumed storage), LEAK (release of owned heap memory), PRE (preconditions of unsafe std
functions), for the consuming implementors (mechanism M3)."""
from env import Ob
from guards import block_facts, unref
from terms import fmt, subterms
from roles import place_path
from r_m1 import _m1, CProver, cprover, storage_len, rewrite, begin_forms
from r_ticket import receiver_kind, exclusive_only, all_callers

LEAK_PRIMS = ("std::mem::forget", "std::boxed::Box::leak", "std::vec::Vec::leak", "std::boxed::Box::into_raw",
              "std::vec::Vec::into_raw_parts", "std::mem::ManuallyDrop::new", "std::rc::Rc::into_raw",
              "std::sync::Arc::into_raw", "std::string::String::leak", "std::string::String::into_raw_parts")


def _is_clarg(t, i):
    """the i-th MIR argument of the closure the event sits in (not bound to a known value)"""
    return t is not None and (t == ("param", i) or (t[0] == "clarg" and t[2] == i))


def _consuming(env):
    return [(adt, r) for adt, r in env.R.impl.items() if r.get("consuming")]


def _alias_locals(b, l):
    """locals that receive `move _l` (transitively)"""
    out = {l}
    changed = True
    while changed:
        changed = False
        for bi, blk in enumerate(b.blocks):
            for s in blk["stmts"]:
                if s["k"] == "assign" and s["rv"]["k"] == "use" and s["rv"]["op"]["k"] in ("move", "copy") \
                        and not s["rv"]["op"]["place"]["p"] and s["rv"]["op"]["place"]["l"] in out \
                        and not s["place"]["p"] and s["place"]["l"] not in out:
                    out.add(s["place"]["l"])
                    changed = True
    return out


def _inline_split(env, m, db, dctx, adt, w, Lc):
    """(block, terminator, lower bound) of an element-wise move-out over `lo..LEN` written directly in body db:
    `(lo..LEN).map(|i| ptr.add(i).read())` or `for i in lo..LEN { .. ptr.add(i).read() .. }`"""
    from guards import range_elem
    ev, R = env.ev, env.R
    reads = False
    for e in env.flat_events(db, adt, w, own_closures=True):
        if e.kind == "call" and e.callee.key in ("std::ptr::const_ptr::read", "std::ptr::mut_ptr::read", "std::ptr::read") \
                and e.args and R.classify(e.args[0])[0] == "store":
            reads = True
    if not reads:
        return None
    for bi, t, c in db.calls():
        if db.blocks[bi]["cleanup"] or c.indirect:
            continue
        rg = None
        if c.trait == "std::iter::Iterator" and c.name == "map" and t["args"]:
            rg = unref(ev.operand(dctx, t["args"][0]))
        elif c.trait == "std::iter::IntoIterator" and c.name == "into_iter" and t["args"]:
            rg = unref(ev.operand(dctx, t["args"][0]))
        if rg is not None and rg[0] == "agg" and rg[1].endswith("ops::Range::Range") and len(rg[2]) == 2 \
                and m.canon(unref(rg[2][1])) == Lc:
            return (bi, t, unref(rg[2][0]))
    return None


def _exit_by_view(env, m, eb, adt, w, r, resv, evs):
    """early_exit that builds one owning view and lets it go out of scope: (ok, why, loc); None if there is no view"""
    from r_m1 import is_view, normalize_views
    ev, R, F = env.ev, env.R, env.F
    views = [e for e in evs if is_view(e)]
    if len(views) != 1:
        return None
    e = normalize_views(views, m)[0]
    rterm = ("atomic", "fetch_add", resv.args[0], resv.args[1:], resv.ctx.site + ((resv.body.def_, resv.bb),))
    ptr, ln = unref(e.args[0]), m.canon(unref(e.args[1]))
    off = None
    for x in subterms(ptr):
        if x[0] == "call" and x[1] == "ptr_add":
            off = unref(x[2][1])
    Lc = m.canon(r["len_term"])
    isb = begin_forms(ev, e.ctx, rterm, None)
    offp = ev.payload(e.ctx, off[1]) if (off is not None and off[0] == "payload") else off
    why = "view over %s, length %s" % (fmt(ptr)[:80], fmt(ln)[:80])
    if not (offp is not None and (isb(offp) or offp == rterm) and R.classify(ptr)[0] == "store"):
        return (False, why, e.loc())
    # length: LEN - begin, possibly through a clamp of LEN to LEN
    def simp(x):
        if x[0] == "call" and x[1] == "min" and len(x[2]) == 2 and m.canon(unref(x[2][0])) == m.canon(unref(x[2][1])):
            return x[2][0]
        return None
    ln = m.canon(rewrite(ln, simp))

    def before(load, rmw):
        """the load was executed before the read-modify-write (sites compared at the first frame where they differ)"""
        s1, s2 = (load[4] if len(load) > 4 else ()), (rmw[4] if len(rmw) > 4 else ())
        for a_, b_ in zip(s1, s2):
            if a_ == b_:
                continue
            if a_[0] != b_[0] or not isinstance(a_[1], int) or not isinstance(b_[1], int):
                return False
            bd = F.bodies.get(a_[0])
            return bd is not None and a_[1] != b_[1] and bd.dominates(a_[1], b_[1])
        return False

    def covers_rest(x):
        """x >= LEN - begin: LEN, or LEN - c / saturating_sub(LEN, c) for a value c of the counter read before the
        reservation (the counter never decreases — ATOM.b, OWN.d — so c <= begin), or the minimum of such amounts"""
        x = m.canon(unref(x))
        if x == Lc:
            return True
        if x[0] == "call" and x[1] == "min" and len(x[2]) == 2:
            return covers_rest(x[2][0]) and covers_rest(x[2][1])
        a_ = b_ = None
        if x[0] == "bin" and x[1] == "Sub":
            a_, b_ = x[2], unref(x[3])
        elif x[0] == "call" and x[1] == "saturating_sub" and len(x[2]) == 2:
            a_, b_ = x[2][0], unref(x[2][1])
        if a_ is not None and m.canon(a_) == Lc and m.canon(b_) in offs:
            return True   # LEN - begin itself
        return a_ is not None and m.canon(a_) == Lc and b_[0] == "atomic" and b_[1] == "load" \
            and R.classify(b_[2]) == ("pos", adt) and before(b_, rterm)
    offs = (m.canon(off), m.canon(offp))
    exact = ln[0] == "bin" and ln[1] == "Sub" and ln[2] == Lc and m.canon(unref(ln[3])) in offs
    if not exact and ln[0] == "bin" and ln[1] == "Sub" and m.canon(unref(ln[3])) in offs:
        # min(begin (+) amount, LEN) - begin with amount >= LEN - begin is LEN - begin
        ex = ln[2]
        if ex[0] == "call" and ex[1] == "min" and len(ex[2]) == 2:
            for sm, l_ in ((ex[2][0], ex[2][1]), (ex[2][1], ex[2][0])):
                sm = unref(sm)
                if m.canon(unref(l_)) != Lc:
                    continue
                parts = None
                if sm[0] == "call" and sm[1] == "saturating_add" and len(sm[2]) == 2:
                    parts = (unref(sm[2][0]), unref(sm[2][1]))
                elif sm[0] == "bin" and sm[1] == "Add":
                    parts = (unref(sm[2]), unref(sm[3]))
                if parts:
                    for b0, amt in (parts, parts[::-1]):
                        if m.canon(b0) in offs and covers_rest(amt):
                            exact = True
    if not exact:
        return (False, why, e.loc())
    # the view is dropped here: never forgotten, wrapped or returned
    vadt = e.info.get("adt")
    top = e.info["top_bb"]
    kept = False
    dropped = False
    for bi, blk in enumerate(eb.blocks):
        if blk["cleanup"]:
            continue
        t = blk["term"]
        if t["k"] == "drop" and vadt and vadt.split("::")[-1] in t["ty"]["s"]:
            dropped = True
        c = eb.callee(bi)
        if c is not None and not c.indirect:
            if c.key == "std::mem::drop" and any(vadt and vadt.split("::")[-1] in (eb.locals[a["place"]["l"]]["ty"]["s"])
                                                 for a in t["args"] if a["k"] in ("move", "copy")):
                dropped = True
            if c.key in ("std::mem::forget", "std::mem::ManuallyDrop::new") and any(
                    vadt and vadt.split("::")[-1] in (eb.locals[a["place"]["l"]]["ty"]["s"])
                    for a in t["args"] if a["k"] in ("move", "copy")):
                kept = True
    if vadt and vadt.split("::")[-1] in eb.locals[0]["ty"]["s"]:
        kept = True
    if kept or not dropped:
        return (False, "the view over the skipped elements is not dropped in early_exit", e.loc())
    return (True, None, e.loc())


def rule_own(env, shared):
    out = []
    R, F, ev = env.R, env.F, env.ev
    m = _m1(env)
    cons = _consuming(env)
    if not cons:
        return [Ob("OWN", "OWN|anchor", "viol", "-", "no consuming implementor found")]
    for adt, r in cons:
        nm = r["name"]
        w = env.world_of(adt)
        own_bodies = [b for b in F.non_test_bodies() if F.impl_self_adt(b) == adt or F.impl_self_adt(b) == r.get("puller")]
        # ---- (a) move-out sites: raw reads of storage
        reads = []
        for b in own_bodies:
            for e in env.flat_events(b, F.impl_self_adt(b), w, max_depth=0):
                if e.kind == "call" and e.callee.key in ("std::ptr::const_ptr::read", "std::ptr::mut_ptr::read",
                                                         "std::ptr::read", "std::ptr::read_unaligned",
                                                         "std::ptr::read_volatile") and e.args:
                    role, a2 = R.classify(e.args[0])
                    if role == "store":
                        reads.append((b, e))
        # a raw read inside a private function that is given the pointer as a parameter (`unsafe fn read_at(first: *const T,
        # i: usize) -> T`): the move-out site is the caller that passes a pointer into the storage
        direct = {(b_.def_, e_.bb) for (b_, e_) in reads}
        for b in own_bodies:
            for e in env.flat_events(b, F.impl_self_adt(b), w, max_depth=2):
                if e.kind == "call" and e.info["chain"] and e.callee.key in (
                        "std::ptr::const_ptr::read", "std::ptr::mut_ptr::read", "std::ptr::read") and e.args \
                        and (e.body.def_, e.bb) not in direct and R.classify(e.args[0])[0] == "store" \
                        and not (e.body.info or {}).get("exported") and F.impl_self_adt(e.body) in (adt, r.get("puller")) \
                        and not any((b2.def_, e2.bb) == (b.def_, e.info["top_bb"]) for (b2, e2) in reads):
                    # (only when the function holding the read cannot itself tell where the pointer comes from)
                    hb_ctx = env.ctx(e.body, F.impl_self_adt(e.body), w)
                    own_ptr = env.ev.operand(hb_ctx, e.body.term(e.bb)["args"][0])
                    if R.classify(own_ptr)[0] != "store":
                        reads.append((b, e))
        for (b, e) in reads:
            k = "OWN.a|%s|%s|move-out" % (nm, env.fname(b))
            root = F.bodies.get(b.root, b) if b.is_closure else b
            if exclusive_only(env, root):
                # remainder: index must range over [split index, LEN)
                okk = False
                off = None
                for x in subterms(e.args[0]):
                    if x[0] == "call" and x[1] == "ptr_add":
                        off = unref(x[2][1])
                # `for i in left..N { .. ptr.add(i).read() .. }`
                from guards import range_elem
                re_ = range_elem(off) if off is not None else None
                def split_point(lo):
                    # the helper's parameter (possibly clamped to LEN by the helper itself), or (when the split is written out
                    # in Drop / into_seq_iter themselves) the position counter — how it may be derived from the counter is
                    # decided by OWN.c / SEQ
                    if lo[0] == "call" and lo[1] == "min" and len(lo[2]) == 2:
                        for x_, l_ in ((lo[2][0], lo[2][1]), (lo[2][1], lo[2][0])):
                            if unref(x_)[0] == "param" and m.canon(unref(l_)) == m.canon(r["len_term"]):
                                return True
                    return lo[0] == "param" or any(x[0] == "atomic" and x[1] == "load" and R.classify(x[2])[0] == "pos"
                                                   for x in subterms(lo))
                if re_ is not None and m.canon(re_[1]) == m.canon(r["len_term"]) and split_point(re_[0]):
                    okk = True
                # the closure parameter of a map over Range{left, N}
                if b.is_closure and _is_clarg(off, 2):
                    pb = F.bodies[b.parent]
                    pctx = env.ctx(pb, adt, w)
                    for bi, t, c in pb.calls():
                        if c.trait == "std::iter::Iterator" and c.name == "map":
                            src = unref(ev.operand(pctx, t["args"][0]))
                            if src[0] == "agg" and src[1].endswith("Range::Range"):
                                lo, hi = unref(src[2][0]), unref(src[2][1])
                                Lc = m.canon(r["len_term"])
                                if m.canon(hi) == Lc and split_point(lo):
                                    okk = True
                out.append(Ob("OWN.a", k, "ok" if okk else "viol", e.loc(),
                              "remainder moved out element-wise over [split index, LEN) with exclusive access" if okk else
                              "a raw element read in an exclusive-access helper of %s does not range over [split index, LEN)" % nm,
                              True))
            else:
                # concurrent path: covered by PROV (offset = reserved index) and CLAMP (index < LEN) in C01/C08
                out.append(Ob("OWN.a", k, "ok", e.loc(),
                              "single move-out on a pull path (index = reserved index: PROV; index < LEN: CLAMP)"))
        if not reads:
            out.append(Ob("OWN.a", "OWN.a|%s|no-move-out" % nm, "viol", "-", "no raw element read found for %s (anchor lost)" % nm))
        # ---- (b) alias owners never dropped in place
        for b in own_bodies:
            for bi, t, c in b.calls():
                if b.blocks[bi]["cleanup"] or not c.key.endswith("Vec::from_raw_parts"):
                    continue
                if F.impl_self_adt(b) != adt:
                    continue
                # (every Vec assembled from raw parts inside a consuming implementor is a view over storage it does not
                #  own exclusively: over the shared storage itself or over a bitwise copy of it)
                k = "OWN.b|%s|%s|alias-owner" % (nm, env.fname(b))
                dl = t["dest"]["l"]
                al = _alias_locals(b, dl)
                bad = None
                for bj, blk in enumerate(b.blocks):
                    if blk["cleanup"]:
                        continue
                    tt = blk["term"]
                    if tt["k"] == "drop" and not tt["place"]["p"] and tt["place"]["l"] in al:
                        bad = b.file_line(tt["loc"])
                if bad:
                    out.append(Ob("OWN.b", k, "viol", bad,
                                  "a Vec view built with from_raw_parts over the shared storage of %s goes out of scope (is "
                                  "dropped) in %s: it drops elements it does not own exclusively (already delivered ones are "
                                  "dropped twice)" % (nm, env.fname(b))))
                else:
                    out.append(Ob("OWN.b", k, "ok", b.file_line(t["loc"]),
                                  "the alias view is moved out of its creator (into the chunk iterator), never dropped in place",
                                  True))
        # ---- (c) Drop impl and remainder split
        a = F.adts.get(adt)
        dfn = a.get("drop_fn") if a else None
        k = "OWN.c|%s|drop" % nm
        if not dfn or dfn not in F.bodies:
            out.append(Ob("OWN.c", k, "viol", "-",
                          "%s keeps its elements in ManuallyDrop storage but has no Drop impl: undelivered elements are never "
                          "dropped" % nm))
        else:
            db = F.bodies[dfn]
            dctx = env.ctx(db, adt, w)
            Lc = m.canon(r["len_term"])
            # remainder-split = crate fn of the implementor called from Drop with an argument derived from a POS load
            rs_call = None
            for bi, t, c in db.calls():
                d = F.resolve_callee(c, adt, None)
                if d and F.impl_self_adt(F.bodies[d]) == adt and len(t["args"]) >= 2:
                    a1 = ev.operand(dctx, t["args"][1])
                    lds = [x for x in subterms(a1) if x[0] == "atomic" and x[1] == "load" and R.classify(x[2])[0] == "pos"]
                    if lds:
                        rs_call = (bi, t, F.bodies[d], a1, lds)
            if rs_call is None:
                # the split written out in Drop itself: elements read over `lo..LEN` (a map over the range, or a for loop)
                inl = _inline_split(env, m, db, dctx, adt, w, Lc)
                if inl is not None:
                    bi_, t_, lo_ = inl
                    lds_ = [x for x in subterms(lo_) if x[0] == "atomic" and x[1] == "load" and R.classify(x[2])[0] == "pos"]
                    if lds_:
                        rs_call = (bi_, t_, None, lo_, lds_)
            if rs_call is None:
                # the split done by std: `taken_vec.split_off(lo)` returns the tail [lo, len) as a vector of its own (dropped
                # as such), the vector taken out of the storage keeps [0, lo)
                for bi, t, c in db.calls():
                    if db.blocks[bi]["cleanup"] or c.indirect or c.key != "std::vec::Vec::split_off" or len(t["args"]) != 2:
                        continue
                    recv = unref(ev.operand(dctx, t["args"][0]))
                    taken = [x for x in subterms(recv) if x[0] in ("call", "ret") and str(x[1]).endswith("ManuallyDrop::take")
                             and x[2] and R.classify(x[2][0]) == ("store", adt)]
                    a1 = ev.operand(dctx, t["args"][1])
                    lds = [x for x in subterms(a1) if x[0] == "atomic" and x[1] == "load" and R.classify(x[2])[0] == "pos"]
                    if taken and lds:
                        rs_call = (bi, t, None, a1, lds)
            if rs_call is None:
                out.append(Ob("OWN.c", k, "viol", db.file_line(),
                              "Drop of %s does not hand the position counter to a remainder split: undelivered elements are "
                              "not dropped (or delivered ones are)" % nm))
            else:
                bi, t, rsb, a1, lds = rs_call
                a1c = m.canon(unref(a1))
                ldc = m.canon(lds[0])
                arith = any(x[0] == "bin" and x[1] in ("Add", "Sub", "Mul") or
                            (x[0] == "call" and x[1] in ("saturating_add", "saturating_sub", "wrapping_add", "wrapping_sub"))
                            for x in subterms(a1c))
                clamped = a1c[0] == "call" and a1c[1] == "min" and Lc in [m.canon(unref(y)) for y in a1c[2]]
                if not clamped and rsb is not None:
                    # the clamp may sit in the remainder split itself: every use of its parameter is `min(param, LEN)`
                    rctx_ = env.ctx(rsb, adt, w)
                    p2_ = ("param", 2)
                    terms_ = [ev.local(rctx_, 0)]
                    for e_ in env.flat_events(rsb, adt, w, own_closures=True):
                        if e_.kind == "call" and e_.info.get("model") in ("min",):
                            continue  # (the clamp itself)
                        terms_.extend(x for x in e_.args if isinstance(x, tuple) and x and isinstance(x[0], str))

                    def strip_(x):
                        if x[0] == "call" and x[1] == "min" and len(x[2]) == 2:
                            for y_, l_ in ((x[2][0], x[2][1]), (x[2][1], x[2][0])):
                                if unref(y_) == p2_ and m.canon(unref(l_)) == Lc:
                                    return ("const", "clamped-split-index")
                        if x[0] == "call" and x[1] == "saturating_sub" and len(x[2]) == 2 and unref(x[2][1]) == p2_ \
                                and m.canon(unref(x[2][0])) == Lc:
                            return ("const", "clamped-remaining-length")   # LEN - min(param, LEN)
                        return None
                    uses_ = [t_ for t_ in terms_ if any(z == p2_ for z in subterms(t_))]
                    if uses_ and not any(z == p2_ for t_ in uses_ for z in subterms(rewrite(m.canon(t_), strip_))):
                        clamped = True
                facts = [tuple(m.canon(x) if isinstance(x, tuple) else x for x in f) for f in block_facts(ev, dctx, bi)]
                guarded = CProver(facts, ev, dctx).le(ldc, Lc)
                if not guarded and not clamped and rsb is not None:
                    # the guard may sit in the remainder split itself (`if index > LEN { return None }`): every use of its
                    # parameter in an operation (not in a comparison) happens under `param <= LEN`
                    p2g = ("param", 2)
                    uses_g = []
                    for e_ in env.flat_events(rsb, adt, w, own_closures=True):
                        if e_.kind == "call" and e_.info.get("model") in ("lt", "le", "gt", "ge", "eq", "ne", "cmp"):
                            continue
                        if any(z == p2g for x in e_.args if isinstance(x, tuple) and x and isinstance(x[0], str)
                               for z in subterms(x)):
                            uses_g.append(e_)
                    if uses_g and all(cprover(m, env, e_).le(p2g, Lc) for e_ in uses_g):
                        guarded = True
                if len(lds) != 1 or arith or not (a1c == ldc or clamped):
                    out.append(Ob("OWN.c", k, "viol", db.file_line(t["loc"]),
                                  "Drop of %s splits the storage at %s instead of at the position counter itself: elements are "
                                  "dropped twice or not at all" % (nm, fmt(a1c)[:100])))
                elif not (clamped or guarded):
                    out.append(Ob("OWN.c", k, "viol", db.file_line(t["loc"]),
                                  "Drop of %s passes the raw position counter to the remainder split without a guard/clamp "
                                  "to LEN (the counter overshoots the length after pulls past the end)" % nm))
                else:
                    # paths that skip the split must know counter > LEN
                    bad = False
                    if not clamped:
                        for bb in db.reachable(0):
                            if db.blocks[bb]["cleanup"] or bb == bi:
                                continue
                            if bi in db.reachable(bb):
                                continue  # before the split
                            if bb in db.reachable(bi):
                                continue  # after the split
                            fs = [tuple(m.canon(x) if isinstance(x, tuple) else x for x in f) for f in block_facts(ev, dctx, bb)]
                            # (nothing is left when counter >= LEN: `<` instead of `<=` in the guard is equivalent)
                            if not CProver(fs, ev, dctx).le(Lc, ldc):
                                bad = True
                    if bad:
                        out.append(Ob("OWN.c", k, "viol", db.file_line(t["loc"]),
                                      "Drop of %s skips the remainder split on a path where the position counter is not known to "
                                      "exceed LEN: undelivered elements leak" % nm))
                    else:
                        out.append(Ob("OWN.c", k, "ok", db.file_line(t["loc"]),
                                      "Drop splits at the position counter (one read, no arithmetic, %s) and drops the remainder"
                                      % ("clamped" if clamped else "guarded by counter <= LEN; skipped only when counter >= LEN"),
                                      True))
                # the remainder split uses its parameter as split point without arithmetic
                k2 = "OWN.c|%s|remainder-split" % nm
                if rsb is None:
                    out.append(Ob("OWN.c", k2, "ok", db.file_line(t["loc"]),
                                  "the remainder is moved out in Drop itself, over [split index, LEN) (rule OWN.a)", True))
                else:
                    rctx = env.ctx(rsb, adt, w)
                    rt = ev.local(rctx, 0)
                    p2 = ("param", 2)
                    uses = [x for x in subterms(rt) if x == p2]
                    arith2 = False
                    from r_ovf import ALLOC_SIZED
                    rt = rewrite(rt, lambda x: ("const", "allocation-hint") if (x[0] == "ret" and x[1] in ALLOC_SIZED) else None)
                    for x in subterms(rt):
                        if x[0] == "bin" and x[1] in ("Add", "Sub", "Mul") and (p2 in (unref(x[2]), unref(x[3]))):
                            arith2 = True
                        if x[0] == "call" and x[1] in ("saturating_add", "saturating_sub") and p2 in [unref(y) for y in x[2]]:
                            arith2 = True
                    okk = bool(uses) and not arith2 and exclusive_only(env, rsb)
                    out.append(Ob("OWN.c", k2, "ok" if okk else "viol", rsb.file_line(),
                                  "remainder split uses its split index unchanged and runs only with exclusive access" if okk else
                                  "the remainder split of %s %s" % (nm, "modifies its split index" if arith2 else
                                                                    "is reachable from shared (&self) callers or ignores its index"),
                                  True))
        # ---- (g) a chunk of a consuming iterator owns the elements reserved for it (an owning view), so that the part the
        #          caller does not consume — break, panic, discarded chunk — is still dropped exactly once
        from r_m1 import is_view
        for u in m.units:
            if u.world["iter"] != adt or u.kind == "single":
                continue
            k = "OWN.g|%s|%s|chunk-owns-its-elements" % (nm, u.kind)
            views = [e for e in u.events if is_view(e)]
            if views:
                out.append(Ob("OWN.g", k, "ok", views[0].loc(), "the reserved elements are handed out as an owning view", True))
            else:
                out.append(Ob("OWN.g", k, "viol", u.body.file_line(),
                              "the %s pull of %s reserves a run of elements but does not hand them out as an owning view: the "
                              "position counter is already past them, so elements the caller does not consume (early break, "
                              "panic in the loop body, discarded chunk) are never dropped" % (u.kind, nm)))
        # ---- (f) a vector taken out of the ManuallyDrop storage still *lists* the delivered elements: before it is dropped
        #          its length must be set to 0 (it may only release the allocation), unless it is re-wrapped / returned
        for b in own_bodies:
            if F.impl_self_adt(b) != adt:
                continue
            ctxb = env.ctx(b, adt, w)
            for bi, t, c in b.calls():
                if b.blocks[bi]["cleanup"] or c.key != "std::mem::ManuallyDrop::take":
                    continue
                a0 = ev.operand(ctxb, t["args"][0])
                if R.classify(a0) != ("store", adt):
                    continue
                dl = t["dest"]["l"]
                if "Vec<" not in b.locals[dl]["ty"]["s"]:
                    continue
                al = _alias_locals(b, dl)
                for bj, blk in enumerate(b.blocks):
                    tt = blk["term"]
                    is_drop = (not blk["cleanup"] and tt["k"] == "drop" and not tt["place"]["p"] and tt["place"]["l"] in al)
                    if not is_drop and not blk["cleanup"] and tt["k"] == "call":
                        # `drop(taken)`: handed to std::mem::drop
                        c3 = b.callee(bj)
                        is_drop = c3 is not None and not c3.indirect and c3.key == "std::mem::drop" and any(
                            ao["k"] in ("move", "copy") and not ao["place"]["p"] and ao["place"]["l"] in al for ao in tt["args"])
                    if not is_drop:
                        continue
                    k = "OWN.f|%s|%s|taken-storage-dropped" % (nm, env.fname(b))
                    zeroed = False
                    for bk, t2, c2 in b.calls():
                        if c2.key == "std::vec::Vec::set_len" and b.dominates(bk, bj):
                            r0 = ev.operand(ctxb, t2["args"][0])
                            v = unref(ev.operand(ctxb, t2["args"][1]))
                            tl = t2["args"][0]
                            if v == ("int", 0):
                                zeroed = True
                    if zeroed:
                        out.append(Ob("OWN.f", k, "ok", b.file_line(tt["loc"]),
                                      "the taken vector only releases its allocation (set_len(0) dominates the drop)", True))
                    else:
                        out.append(Ob("OWN.f", k, "viol", b.file_line(tt["loc"]),
                                      "%s drops the vector taken out of the storage of %s with its length intact: every element "
                                      "it still lists — delivered to callers or already dropped with the remainder — is dropped "
                                      "again" % (env.fname(b), nm)))
        # ---- (f, unwinding) the same on unwind paths: between taking the vector out of the storage and `set_len(0)` (or
        #          moving it on), nothing may unwind — an unwinding there drops the taken vector with its length intact, i.e.
        #          every delivered element a second time. Terminators that cannot unwind: a whitelist of std functions,
        #          `split_off(at)` with `at <= len` entailed, and the panic of a debug_assert! (whose condition is entailed at
        #          every call site: PRE.dbg).
        SAFE = ("std::vec::Vec::set_len", "std::mem::ManuallyDrop::new", "std::mem::ManuallyDrop::take",
                "std::cell::UnsafeCell::get_mut", "std::cell::UnsafeCell::get", "std::ops::DerefMut::deref_mut",
                "std::ops::Deref::deref", "std::vec::Vec::len", "std::vec::Vec::as_mut_ptr", "std::vec::Vec::as_ptr",
                "std::vec::Vec::capacity", "std::mem::forget", "std::vec::Vec::from_raw_parts")
        for b in own_bodies:
            if F.impl_self_adt(b) != adt:
                continue
            ctxb = env.ctx(b, adt, w)
            for bi, t, c in b.calls():
                if b.blocks[bi]["cleanup"] or c.key != "std::mem::ManuallyDrop::take":
                    continue
                if R.classify(ev.operand(ctxb, t["args"][0])) != ("store", adt):
                    continue
                dl = t["dest"]["l"]
                if "Vec<" not in b.locals[dl]["ty"]["s"]:
                    continue
                al = _alias_locals(b, dl)
                cdrops = {bj for bj, blk in enumerate(b.blocks) if blk["cleanup"] and blk["term"]["k"] == "drop"
                          and not blk["term"]["place"]["p"] and blk["term"]["place"]["l"] in al}
                if not cdrops:
                    continue
                k = "OWN.f|%s|%s|taken-storage-unwind" % (nm, env.fname(b))
                bad = None
                for bu in sorted(b.reachable(0)):
                    blk = b.blocks[bu]
                    tu = blk["term"]
                    if blk["cleanup"] or tu["k"] not in ("call", "drop", "assert"):
                        continue
                    u0 = tu.get("unwind")
                    if not isinstance(u0, int):
                        continue
                    # does its cleanup chain drop the taken vector?
                    seen, st, hits = set(), [u0], False
                    while st:
                        x = st.pop()
                        if x in seen:
                            continue
                        seen.add(x)
                        if x in cdrops:
                            hits = True
                        st.extend(b.succ(x, unwind=True))
                    if not hits:
                        continue
                    # zeroed before?
                    zeroed = any(c2.key == "std::vec::Vec::set_len" and b.dominates(bk, bu) and bk != bu
                                 and unref(ev.operand(ctxb, t2["args"][1])) == ("int", 0) for bk, t2, c2 in b.calls())
                    if zeroed:
                        continue
                    if tu["k"] == "assert" and tu["msg"] in ("MisalignedPointer", "NullPointer"):
                        continue
                    if tu["k"] == "call":
                        cu = b.callee(bu)
                        if cu is not None and not cu.indirect:
                            if cu.key in SAFE:
                                continue
                            if "debug_assert" in (tu["loc"].get("expn") or "") or "debug_assert" in (tu["loc"].get("outer_macro") or ""):
                                continue
                            if cu.key == "std::vec::Vec::split_off" and len(tu["args"]) == 2:
                                at = m.canon(unref(ev.operand(ctxb, tu["args"][1])))
                                fs = [tuple(m.canon(x) if isinstance(x, tuple) else x for x in f) for f in block_facts(ev, ctxb, bu)]
                                if CProver(fs, ev, ctxb).le(at, m.canon(r["len_term"])):
                                    continue
                                at0 = unref(ev.operand(ctxb, tu["args"][1]))
                                if at0[0] == "param" and not (b.info or {}).get("exported"):
                                    # a private helper: judged at its call sites (the value every caller passes is <= LEN)
                                    cs = [(cb_, cbb_) for (cb_, cbb_) in all_callers(env, b.def_) if cb_.def_ != b.def_]
                                    okc = bool(cs)
                                    for (cb_, cbb_) in cs:
                                        cctx_ = env.ctx(cb_, F.impl_self_adt(cb_) or adt, w)
                                        args_ = cb_.term(cbb_)["args"]
                                        if at0[1] - 1 >= len(args_):
                                            okc = False
                                            continue
                                        av = m.canon(unref(ev.operand(cctx_, args_[at0[1] - 1])))
                                        fs_ = [tuple(m.canon(x) if isinstance(x, tuple) else x for x in f)
                                               for f in block_facts(ev, cctx_, cbb_)]
                                        if not CProver(fs_, ev, cctx_).le(av, m.canon(r["len_term"])):
                                            okc = False
                                    if okc:
                                        continue
                    if tu["k"] == "drop" and "Vec<" not in tu["ty"]["s"] and tu["place"]["l"] in al:
                        continue
                    bad = (bu, tu)
                    break
                if bad:
                    bu, tu = bad
                    cu = b.callee(bu) if tu["k"] == "call" else None
                    what = ("call " + cu.key) if (cu is not None and not cu.indirect) else tu["k"]
                    out.append(Ob("OWN.f", k, "viol", b.file_line(tu["loc"]),
                                  "%s can unwind from `%s` while the vector taken out of the storage of %s still has its length: "
                                  "the unwinding drops it and with it every element it lists — delivered to callers, or dropped "
                                  "with the remainder — a second time (set its length to 0 first)" % (env.fname(b), what, nm)))
                else:
                    out.append(Ob("OWN.f", k, "ok", b.file_line(t["loc"]),
                                  "nothing can unwind between taking the vector out of the storage and zeroing / re-wrapping it",
                                  True))
        # ---- (e) a non-destructive remainder split (raw reads) leaves the storage intact: a by-value caller must mark
        #          the iterator exhausted afterwards, or its implicit Drop splits the same remainder off again
        if dfn and dfn in F.bodies:
            rsb2 = None
            for bi, t, c in F.bodies[dfn].calls():
                d = F.resolve_callee(c, adt, None)
                if d and F.impl_self_adt(F.bodies[d]) == adt and len(t["args"]) >= 2:
                    rsb2 = F.bodies[d]
            if rsb2 is not None:
                nondestructive = any(bb is rsb2 or (bb.is_closure and bb.root == rsb2.def_) or
                                     (bb.is_closure and F.bodies.get(bb.parent) is rsb2) for (bb, e2) in reads)
                for (cb, cbb) in all_callers(env, rsb2.def_):
                    if cb.def_ == dfn or receiver_kind(cb, F) != "value":
                        continue
                    k = "OWN.e|%s|%s|exhausted-after-split" % (nm, env.fname(cb))
                    if not nondestructive:
                        out.append(Ob("OWN.e", k, "ok", cb.file_line(cb.term(cbb)["loc"]),
                                      "the remainder split shrinks the stored collection itself (std split_off): a second split "
                                      "by Drop finds nothing"))
                        continue
                    cctx = env.ctx(cb, adt, w)
                    Lc = m.canon(r["len_term"])
                    Lv = rewrite(Lc, lambda x: ("param", 1) if x == ("deref", ("param", 1)) else None)
                    store_blocks = set()
                    for e in env.flat_events(cb, adt, w):
                        if e.kind == "atomic" and e.info["op"] == "store" and R.classify(e.info["place"]) == ("pos", adt):
                            v = m.canon(unref(e.args[1]))
                            if CProver([], ev, cctx).le(Lc, v) or CProver([], ev, cctx).le(Lv, v):
                                store_blocks.add(e.info["top_bb"])
                        if e.kind == "call" and e.callee.key == "std::mem::forget":
                            store_blocks.add(e.info["top_bb"])
                    tgt = cb.term(cbb).get("target")
                    bypass = tgt is None or (tgt not in store_blocks and cb.paths_avoiding(tgt, set(cb.exits()), store_blocks)) \
                        or (tgt not in store_blocks and tgt in cb.exits())
                    if bypass:
                        out.append(Ob("OWN.e", k, "viol", cb.file_line(cb.term(cbb)["loc"]),
                                      "%s moves the remainder out with a split that leaves the storage intact, and can return "
                                      "without marking the iterator exhausted: the implicit Drop of the consumed iterator splits "
                                      "the same elements off again and drops what the caller now owns" % env.fname(cb)))
                    else:
                        out.append(Ob("OWN.e", k, "ok", cb.file_line(cb.term(cbb)["loc"]),
                                      "after the split the counter is set to LEN on every path: Drop has nothing left", True))
        # ---- (d) conservation: no blind store to POS from shared paths; early_exit drops exactly [reserved, LEN)
        eb = R.method_body(R.T_ATOMIC, "early_exit", adt)
        k = "OWN.d|%s|early_exit" % nm
        if eb is None:
            out.append(Ob("OWN.d", k, "viol", "-", "early_exit of %s not found" % nm))
        else:
            evs = env.flat_events(eb, adt, w)
            stores = [e for e in evs if e.kind == "atomic" and e.info["op"] == "store" and R.classify(e.info["place"])[0] == "pos"]
            resv = [e for e in evs if e.kind == "atomic" and e.info["op"] == "fetch_add" and R.classify(e.info["place"])[0] == "pos"]
            drops = [e for e in evs if e.kind == "call" and e.callee.key in ("std::ptr::drop_in_place",)]
            if stores:
                out.append(Ob("OWN.d", k, "viol", stores[0].loc(),
                              "early_exit of the consuming iterator %s overwrites the position counter with a plain store: the "
                              "previous value is lost, so the skipped elements [old, LEN) are neither delivered nor dropped — "
                              "or, if they are dropped from a separately loaded value, a racing pull delivers one of them too"
                              % nm))
            elif len(resv) == 1 and len(drops) == 0 and _exit_by_view(env, m, eb, adt, w, r, resv[0], evs) is not None:
                # the skipped interval is taken as one last chunk (an owning view over [reserved begin, LEN)) that is abandoned
                # right away: its destructor drops exactly these elements (OWN.view)
                okv, whyv, locv = _exit_by_view(env, m, eb, adt, w, r, resv[0], evs)
                out.append(Ob("OWN.d", k, "ok" if okv else "viol", locv,
                              "early_exit drops exactly [reserved begin, LEN) of the storage (as an abandoned owning view)" if okv
                              else "early_exit of %s does not drop exactly the interval [reserved begin, LEN): %s" % (nm, whyv),
                              True))
            elif len(resv) != 1 or len(drops) != 1:
                out.append(Ob("OWN.d", k, "viol", eb.file_line(),
                              "early_exit of %s does not reserve the remaining positions with one atomic read-modify-write and "
                              "drop exactly those (reservations: %d, drops: %d)" % (nm, len(resv), len(drops))))
            else:
                e = drops[0]
                rterm = ("atomic", "fetch_add", resv[0].args[0], resv[0].args[1:], resv[0].ctx.site +
                         ((resv[0].body.def_, resv[0].bb),))
                sl = unref(e.args[0])
                good = False
                why = fmt(sl)[:160]
                if sl[0] == "call" and sl[1] == "slice_from_raw_parts" and len(sl[2]) == 2:
                    ptr, ln = unref(sl[2][0]), m.canon(unref(sl[2][1]))
                    off = None
                    for x in subterms(ptr):
                        if x[0] == "call" and x[1] == "ptr_add":
                            off = unref(x[2][1])
                    Lc = m.canon(r["len_term"])
                    isb = begin_forms(ev, e.ctx, rterm, None)
                    offp = off
                    if off is not None and off[0] == "payload":
                        offp = ev.payload(e.ctx, off[1])
                    if offp is not None and (isb(offp) or offp == rterm) and R.classify(ptr)[0] == "store":
                        if ln[0] == "bin" and ln[1] == "Sub" and ln[2] == Lc and m.canon(unref(ln[3])) in (m.canon(off), m.canon(offp)):
                            good = True
                out.append(Ob("OWN.d", k, "ok" if good else "viol", e.loc(),
                              "early_exit drops exactly [reserved begin, LEN) of the storage" if good else
                              "early_exit of %s does not drop exactly the interval [reserved begin, LEN): %s" % (nm, why), True))
        # stores to POS in any other shared-path function of a consuming implementor
        for b in own_bodies:
            if eb is not None and b.def_ == eb.def_:
                continue
            for e in env.flat_events(b, F.impl_self_adt(b), w, max_depth=1):
                if e.kind == "atomic" and e.info["op"] == "store" and R.classify(e.info["place"]) == ("pos", adt):
                    k = "OWN.d|%s|%s|store(pos)" % (nm, env.fname(b))
                    if any(o.key == k for o in out):
                        continue
                    root = F.bodies.get(b.root, b) if b.is_closure else b
                    if receiver_kind(root, F) in ("value", "mut"):
                        # exclusive: allowed when the remainder has been moved out before (into_seq_iter)
                        out.append(Ob("OWN.d", k, "ok", e.loc(), "counter set with exclusive access after the remainder was taken"))
                    else:
                        out.append(Ob("OWN.d", k, "viol", e.loc(),
                                      "%s stores to the position counter of a consuming iterator from a shared path" % env.fname(b)))
    return out


def _field_load_site(b, op, vadt, fidx, depth=0):
    """(block, statement index) of the statement that loads field fidx of the view from `self` into the local that
    reaches operand op through plain copies; None if the operand is not such a load"""
    if op["k"] not in ("copy", "move") or depth > 4:
        return None
    pl = op["place"]
    if pl["p"]:
        return None
    defs = [d for d in b.defs().get(pl["l"], []) if not b.blocks[d[0]]["cleanup"]]
    if len(defs) != 1 or defs[0][2] != "assign":
        return None
    bb, si, kind, rv = defs[0]
    if rv["k"] == "use" and rv["op"]["k"] in ("copy", "move"):
        src = rv["op"]["place"]
        if src["p"] and src["p"][-1]["k"] == "field" and src["p"][-1].get("adt") == vadt and src["p"][-1]["i"] == fidx:
            return (bb, si)
        if not src["p"]:
            return _field_load_site(b, rv["op"], vadt, fidx, depth + 1)
    if rv["k"] == "cast":
        return _field_load_site(b, rv["op"], vadt, fidx, depth + 1)
    return None


def _view_steppers(env, vadt, P, L, nb, db):
    """Private methods of the view that advance it — `fn advance(&mut self, n) -> *mut T { let p = self.ptr; self.ptr =
    p.add(n); self.len -= n; p }` — judged once: {def: (ok, why)}. A stepper writes both fields exactly once, on every
    path, ptr by `ptr + n` and len by `len - n` with n its parameter, returns the pointer as it was loaded *before* the
    write, and is called only from `next` and `Drop::drop` of the view."""
    F, ev = env.F, env.ev
    out = {}
    for b in F.non_test_bodies():
        if F.impl_self_adt(b) != vadt or b.is_closure or (nb is not None and b.def_ == nb.def_) \
                or (db is not None and b.def_ == db.def_):
            continue
        writes = []
        for bj, blk in enumerate(b.blocks):
            if blk["cleanup"]:
                continue
            for sj, s2 in enumerate(blk["stmts"]):
                if s2["k"] == "assign" and s2["place"]["p"] and s2["place"]["p"][-1]["k"] == "field" \
                        and s2["place"]["p"][-1].get("adt") == vadt:
                    writes.append((bj, sj, s2))
        if not writes:
            continue
        ctx = env.ctx(b, vadt, None)

        def isf(t, idx):
            t = unref(t)
            return t[0] == "field" and t[2] == idx and len(t) > 4 and t[4] == vadt
        ok, why = True, ""
        if (b.info or {}).get("container") != "inherent" or (b.info or {}).get("exported"):
            ok, why = False, "it is not a private method of the view"
        callers = [cb for (cb, _bb) in all_callers(env, b.def_)]
        if ok and any(not ((nb is not None and cb.def_ == nb.def_) or (db is not None and cb.def_ == db.def_)) for cb in callers):
            ok, why = False, "it is called from outside next / drop"
        n = ("param", 2)
        wp = [w for w in writes if w[2]["place"]["p"][-1]["i"] == P]
        wl = [w for w in writes if w[2]["place"]["p"][-1]["i"] == L]
        if ok and (len(wp) != 1 or len(wl) != 1 or len(writes) != 2):
            ok, why = False, "it does not write each of the two fields exactly once"
        if ok:
            vp = unref(ev.rvalue(ctx, wp[0][2]["rv"]))
            vl = unref(ev.rvalue(ctx, wl[0][2]["rv"]))
            if not (vp[0] == "call" and vp[1] == "ptr_add" and isf(vp[2][0], P) and unref(vp[2][1]) == n):
                ok, why = False, "the pointer is not advanced by its parameter"
            elif not (vl[0] == "bin" and vl[1] == "Sub" and isf(vl[2], L) and unref(vl[3]) == n):
                ok, why = False, "the length is not decreased by its parameter"
        if ok:
            # both writes on every path
            for (wb, _sj, _s2) in (wp[0], wl[0]):
                rets_ = set(x for x in b.exits() if b.term(x)["k"] == "return") - {wb}
                if wb != 0 and rets_ and b.paths_avoiding(0, rets_, {wb}):
                    ok, why = False, "a field update can be skipped"
        if ok:
            # the returned pointer: the field as loaded before the write
            rets = [d for d in b.defs().get(0, []) if not b.blocks[d[0]]["cleanup"]]
            if len(rets) != 1 or rets[0][2] != "assign" or rets[0][3]["k"] != "use":
                ok, why = False, "its result is not a plain value"
            else:
                ls = _field_load_site(b, rets[0][3]["op"], vadt, P)
                if ls is None:
                    ok, why = False, "it does not return the pointer field"
                else:
                    lb, lsi = ls
                    if not ((lb == wp[0][0] and lsi < wp[0][1]) or (lb != wp[0][0] and b.dominates(lb, wp[0][0]))):
                        ok, why = False, "it returns the pointer as it is after the step"
        out[b.def_] = (ok, why, b)
    return out


def rule_view(env, shared):
    """OWN.view: an owning view {ptr, len} over reserved elements yields each element once and drops the rest:
    next reads *ptr only under len != 0 and then advances ptr by one and decrements len; len()/size_hint report len;
    Drop drops exactly [ptr, ptr+len); nothing else writes the fields; a view returned by a helper of a consuming
    implementor is handed on, never dropped in place."""
    out = []
    R, F, ev = env.R, env.F, env.ev
    views = env.view_adts()
    if not views:
        return out
    for vadt, vf in views.items():
        nm = vadt.split("::")[-1]
        P, L = vf["ptr"], vf["len"]

        def isf(t, idx):
            t = unref(t)
            return t[0] == "field" and t[2] == idx and len(t) > 4 and t[4] == vadt
        nb = F.method_impl("std::iter::Iterator", "next", vadt)
        nb = F.bodies.get(nb) if nb else None
        k = "OWN.view|%s|next" % nm
        if nb is None:
            out.append(Ob("OWN.view", k, "viol", "-", "Iterator::next of the view %s not found" % nm))
        else:
            ctx = env.ctx(nb, vadt, None)
            READS = ("std::ptr::mut_ptr::read", "std::ptr::const_ptr::read", "std::ptr::read")
            reads = [(bi, t) for bi, t, c in nb.calls() if c.key in READS and not nb.blocks[bi]["cleanup"]]
            nb_orig, extra_guard, taker = nb, [], None
            if not reads:
                # the read and the step may sit together in one private method that only `next` calls, under next's guard
                # (`if self.len == 0 { return None } Some(unsafe { self.take_first() })`): that method is judged in next's place,
                # with what next knows at the call
                for bi_, t_, c_ in nb.calls():
                    d_ = F.resolve_callee(c_, vadt, None) if (not c_.indirect and not nb.blocks[bi_]["cleanup"]) else None
                    hb_ = F.bodies.get(d_) if d_ else None
                    if hb_ is None or hb_.is_closure or F.impl_self_adt(hb_) != vadt or (hb_.info or {}).get("exported") \
                            or (hb_.info or {}).get("container") != "inherent":
                        continue
                    if len([1 for bj, tj, cj in hb_.calls() if cj.key in READS and not hb_.blocks[bj]["cleanup"]]) != 1:
                        continue
                    if any(cb_.def_ != nb.def_ for (cb_, _x) in all_callers(env, hb_.def_)):
                        continue
                    if len([1 for bj, tj, cj in nb.calls() if not cj.indirect and F.resolve_callee(cj, vadt, None) == d_]) != 1:
                        continue
                    extra_guard = [f for f in block_facts(ev, ctx, bi_) if f[0] == "ne" and len(f) == 3]
                    taker = hb_
                if taker is not None:
                    nb = taker
                    ctx = env.ctx(nb, vadt, None)
                    reads = [(bi, t) for bi, t, c in nb.calls() if c.key in READS and not nb.blocks[bi]["cleanup"]]
            good = len(reads) == 1
            why = "" if good else "%d raw reads" % len(reads)
            a_ = F.adts[vadt]
            steppers = _view_steppers(env, vadt, P, L, nb_orig, F.bodies.get(a_.get("drop_fn"))) if taker is None else {}
            scalls = [(bi, t, c) for bi, t, c in nb.calls() if not nb.blocks[bi]["cleanup"] and not c.indirect
                      and F.resolve_callee(c, vadt, None) in steppers]
            if good and scalls:
                # the step is made by a stepper: `Some(self.advance(1).read())` under len != 0
                bi, t = reads[0]
                direct = any(s2["k"] == "assign" and s2["place"]["p"] and s2["place"]["p"][-1]["k"] == "field"
                             and s2["place"]["p"][-1].get("adt") == vadt for blk in nb.blocks for s2 in blk["stmts"])
                if len(scalls) != 1 or direct:
                    good, why = False, "the view is advanced more than once per call"
                else:
                    sbi, st_, sc = scalls[0]
                    sd = F.resolve_callee(sc, vadt, None)
                    if not steppers[sd][0]:
                        good, why = False, "the stepping helper is not a single step (%s)" % steppers[sd][1]
                    elif unref(ev.operand(ctx, st_["args"][1])) != ("int", 1):
                        good, why = False, "the view is not advanced by exactly one element"
                    elif not any(f[0] == "ne" and len(f) == 3 and isf(f[1], L) and f[2] == ("int", 0)
                                 for f in block_facts(ev, ctx, sbi)):
                        good, why = False, "the view is advanced without the guard len != 0"
                    else:
                        # the pointer that is read is the one the stepper returned
                        op = t["args"][0]
                        src_l = op["place"]["l"] if op["k"] in ("copy", "move") and not op["place"]["p"] else None
                        al = _alias_locals(nb, st_["dest"]["l"]) if src_l is not None else set()
                        if src_l is None or src_l not in al:
                            good, why = False, "the element is not read through the pointer the stepping helper released"
                        elif bi != sbi and not nb.dominates(sbi, bi):
                            good, why = False, "the read does not follow the step"
                out.append(Ob("OWN.view", k, "ok" if good else "viol", nb.file_line(),
                              "under len != 0 one element is released by the stepping helper (ptr + 1, len - 1) and read" if good
                              else "next of the owning view %s is not a single guarded read followed by one step: %s — an element "
                              "is yielded twice, skipped, or read past the reserved interval" % (nm, why), True))
                good = None
            if good:
                bi, t = reads[0]
                src = ev.operand(ctx, t["args"][0])
                if not isf(src, P):
                    good, why = False, "reads %s, not the view's pointer" % fmt(src)[:60]
                fs = block_facts(ev, ctx, bi) + extra_guard
                if not any(f[0] == "ne" and len(f) == 3 and isf(f[1], L) and f[2] == ("int", 0) for f in fs):
                    good, why = False, "the read is not guarded by len != 0"
                # the two field updates (ptr += 1, len -= 1), in either order relative to the read
                wp = wl = None
                for bj, blk in enumerate(nb.blocks):
                    if blk["cleanup"]:
                        continue
                    for sj, s2 in enumerate(blk["stmts"]):
                        if s2["k"] == "assign" and s2["place"]["p"] and s2["place"]["p"][-1]["k"] == "field" \
                                and s2["place"]["p"][-1].get("adt") == vadt:
                            fi = s2["place"]["p"][-1]["i"]
                            v = unref(ev.rvalue(ctx, s2["rv"]))
                            if fi == P:
                                okp = v[0] == "call" and v[1] == "ptr_add" and isf(v[2][0], P) and unref(v[2][1]) == ("int", 1)
                                wp = (bj, okp and wp is None, sj)
                            elif fi == L:
                                okl = v[0] == "bin" and v[1] == "Sub" and isf(v[2], L) and unref(v[3]) == ("int", 1)
                                wl = (bj, okl and wl is None, sj)
                if good and not (wp and wp[1] and wl and wl[1]):
                    good, why = False, "the view is not advanced by exactly one element (one ptr+1, one len-1) per call"
                if good:
                    # fields behind `&mut self` are read flow-insensitively by the term engine: the pointer value that is
                    # read from must have been loaded from the field *before* the field is advanced
                    ls = _field_load_site(nb, t["args"][0], vadt, P)
                    if ls is None:
                        good, why = False, "cannot find where the pointer that is read from is loaded from the view"
                    else:
                        lb, lsi = ls
                        before = (lb == wp[0] and lsi < wp[2]) or (lb != wp[0] and nb.dominates(lb, wp[0]))
                        if not before:
                            good, why = False, "the element is read through the pointer field after the field was advanced"
                if good:
                    # both updates happen on every path on which the read happens
                    for (wb, _, _) in (wp, wl):
                        ex_ = set(nb.exits()) - {wb}   # (an update in the returning block itself is on the path)
                        if wb != bi and not nb.dominates(wb, bi) and ex_ and nb.paths_avoiding(bi, ex_, {wb}):
                            good, why = False, "an update of the view can be skipped after the read"
                        fsw = block_facts(ev, ctx, wb) + extra_guard
                        if not any(f[0] == "ne" and len(f) == 3 and isf(f[1], L) and f[2] == ("int", 0) for f in fsw):
                            good, why = False, "the view is advanced without the guard len != 0"
            if good is not None:
              out.append(Ob("OWN.view", k, "ok" if good else "viol", nb_orig.file_line(),
                          "reads *ptr under len != 0, then ptr += 1 and len -= 1 on every path" if good else
                          "next of the owning view %s is not a single guarded read followed by one step: %s — an element is "
                          "yielded twice, skipped, or read past the reserved interval" % (nm, why), True))
        taker_def = None
        if nb is not None and "nb_orig" in dir() and nb_orig is not None and nb is not nb_orig:
            taker_def = nb.def_
            nb = nb_orig
        # len / size_hint
        for (tr, mn) in (("std::iter::ExactSizeIterator", "len"), ("std::iter::Iterator", "size_hint")):
            d = F.method_impl(tr, mn, vadt)
            if not d or d not in F.bodies:
                continue
            b = F.bodies[d]
            t = unref(ev.local(env.ctx(b, vadt, None), 0))
            k = "OWN.view|%s|%s" % (nm, mn)
            if mn == "len":
                okk = isf(t, L)
            else:
                # (`let n = ExactSizeIterator::len(self); (n, Some(n))`: through the view's own len(), judged above)
                def lenself(x):
                    x = unref(x)
                    return isf(x, L) or (x[0] == "call" and x[1] == "len" and x[2] and
                                         unref(x[2][0]) in (("param", 1), ("deref", ("param", 1))))
            if mn != "len":
                okk = t[0] == "agg" and t[1] == "tuple" and len(t[2]) == 2 and lenself(t[2][0]) and \
                    unref(t[2][1])[0] == "agg" and unref(t[2][1])[1].endswith("Option::Some") and lenself(unref(t[2][1])[2][0])
            out.append(Ob("OWN.view", k, "ok" if okk else "viol", b.file_line(),
                          "%s reports the number of elements still owned" % mn if okk else
                          "%s of the view %s does not report its remaining length: %s" % (mn, nm, fmt(t)[:80]), True))
        # Drop
        a = F.adts[vadt]
        db = F.bodies.get(a.get("drop_fn"))
        k = "OWN.view|%s|drop" % nm
        good = False
        whyd = ""
        if db is not None:
            ctx = env.ctx(db, vadt, None)
            steppers = _view_steppers(env, vadt, P, L, nb, db)
            scalls = [(bi, t, c) for bi, t, c in db.calls() if not db.blocks[bi]["cleanup"] and not c.indirect
                      and F.resolve_callee(c, vadt, None) in steppers]
            for bi, t, c in db.calls():
                if c.key == "std::ptr::drop_in_place":
                    sl = unref(ev.operand(ctx, t["args"][0]))
                    if sl[0] == "call" and sl[1] == "slice_from_raw_parts" and isf(sl[2][0], P) and isf(sl[2][1], L):
                        good = True
            if scalls:
                # Drop releases all remaining elements through the stepper first: `let len = self.len; let first =
                # self.advance(len); drop_in_place(slice(first, len))`. Fields behind `&mut self` are read flow-insensitively
                # by the term engine, so the order is checked on the MIR: the count that is passed to the stepper and the length
                # of the dropped slice are loaded from the field *before* the step, the slice starts at what the stepper returned.
                good = False
                if len(scalls) != 1:
                    whyd = "the view is stepped more than once in Drop"
                else:
                    sbi, st_, sc = scalls[0]
                    sd = F.resolve_callee(sc, vadt, None)
                    if not steppers[sd][0]:
                        whyd = "the stepping helper is not a single step (%s)" % steppers[sd][1]
                    else:
                        def before_step(op):
                            ls = _field_load_site(db, op, vadt, L)
                            if ls is None:
                                return False
                            lb, _lsi = ls
                            return lb == sbi or db.dominates(lb, sbi)
                        slc = [(bi, t) for bi, t, c in db.calls() if not db.blocks[bi]["cleanup"] and not c.indirect
                               and c.key.endswith("slice_from_raw_parts_mut") or (not c.indirect and c.key.endswith("slice_from_raw_parts"))]
                        dip = [(bi, t) for bi, t, c in db.calls() if not db.blocks[bi]["cleanup"] and c.key == "std::ptr::drop_in_place"]
                        if len(slc) != 1 or len(dip) != 1:
                            whyd = "Drop does not drop exactly one slice"
                        elif not before_step(st_["args"][1]):
                            whyd = "the number of elements released is not the length loaded before the step"
                        elif not before_step(slc[0][1]["args"][1]):
                            whyd = "the length of the dropped slice is read after the view was stepped (it is 0 by then)"
                        else:
                            op = slc[0][1]["args"][0]
                            src_l = op["place"]["l"] if op["k"] in ("copy", "move") and not op["place"]["p"] else None
                            if src_l is None or src_l not in _alias_locals(db, st_["dest"]["l"]):
                                whyd = "the dropped slice does not start at the pointer the stepping helper released"
                            elif not (db.dominates(sbi, slc[0][0]) and db.dominates(slc[0][0], dip[0][0])):
                                whyd = "the slice is not dropped after the step on every path"
                            else:
                                good = True
        out.append(Ob("OWN.view", k, "ok" if good else "viol", db.file_line() if db else "-",
                      "Drop drops exactly the elements not yet yielded: [ptr, ptr+len)" if good else
                      "Drop of the view %s does not drop exactly [ptr, ptr+len): unconsumed elements of a chunk leak or are "
                      "dropped twice%s" % (nm, (" (" + whyd + ")") if whyd else ""), True))
        # other writers
        k = "OWN.view|%s|writers" % nm
        bad = None
        okst = {d for d, v in _view_steppers(env, vadt, P, L, nb, db).items() if v[0]}
        for b in F.non_test_bodies():
            if nb is not None and b.def_ == nb.def_:
                continue
            if b.def_ in okst or (taker_def is not None and b.def_ == taker_def):
                continue  # a private stepping / taking helper, judged above and used by next / drop only
            for bj, blk in enumerate(b.blocks):
                for s2 in blk["stmts"]:
                    if s2["k"] == "assign" and s2["place"]["p"] and s2["place"]["p"][-1]["k"] == "field" \
                            and s2["place"]["p"][-1].get("adt") == vadt:
                        bad = b.file_line(s2["loc"])
        out.append(Ob("OWN.view", k, "viol" if bad else "ok", bad or "-",
                      "the fields of the view %s are written outside next" % nm if bad else "only next advances the view"))
        # views are handed on, not dropped, by the helpers of consuming implementors
        for adt, r in _consuming(env):
            for b in F.non_test_bodies():
                if F.impl_self_adt(b) not in (adt, r.get("puller")):
                    continue
                for li, l in enumerate(b.locals):
                    if (l["ty"].get("adt") or "") != vadt and not (l["ty"]["s"].startswith(vadt + "<")):
                        continue
                    if li == 0:
                        continue
                    al = _alias_locals(b, li)
                    for bj, blk in enumerate(b.blocks):
                        tt = blk["term"]
                        if not blk["cleanup"] and tt["k"] == "drop" and not tt["place"]["p"] and tt["place"]["l"] in al:
                            out.append(Ob("OWN.view", "OWN.view|%s|%s|dropped-in-place" % (nm, env.fname(b)), "viol",
                                          b.file_line(tt["loc"]),
                                          "%s drops a view over reserved elements instead of handing it to the caller: the "
                                          "reserved elements are dropped without being delivered" % env.fname(b)))
    return out


def rule_leak_write(env, shared):
    """LEAK.write: `ptr::write` / `p.write(v)` overwrites its destination without dropping what is there. It is used only on
    memory that holds no live value: a fresh local MaybeUninit. A raw write into a re-used slot (a buffer, a field) leaks
    the value the slot still owns."""
    out = []
    R, F = env.R, env.F
    n = 0
    for b in F.non_test_bodies():
        sa = F.impl_self_adt(b)
        world = None
        for w in env.worlds():
            if w["iter"] == sa or w["puller"] == sa:
                world = w
        for e in env.flat_events(b, sa, world, max_depth=0):
            if e.kind != "call" or e.callee is None or e.callee.indirect:
                continue
            if e.callee.key not in ("std::ptr::mut_ptr::write", "std::ptr::write", "std::ptr::write_unaligned",
                                    "std::ptr::mut_ptr::write_unaligned", "std::ptr::write_volatile"):
                continue
            n += 1
            d = fmt(e.args[0]) if e.args else "?"
            k = "LEAK.write|%s" % env.fname(b)
            okk = "MaybeUninit::as_mut_ptr" in d and R.classify(e.args[0])[0] not in ("store", "cell")
            if any(o.key == k and o.status == "viol" for o in out):
                continue
            out = [o for o in out if o.key != k]
            out.append(Ob("LEAK.write", k, "ok" if okk else "viol", e.loc(),
                          "raw write into a fresh local MaybeUninit" if okk else
                          "raw write to %s: `write` does not drop the previous content of its destination; if the slot still "
                          "holds a value (a buffer that is re-used, a chunk that was not consumed to its end) that value is "
                          "never dropped" % d[:90], True))
    if n == 0:
        out.append(Ob("LEAK.write", "LEAK.write|none", "ok", "-", "no raw write in the crate"))
    return out


def _field_takes(env, db, ctx, fi, path):
    """ManuallyDrop take / drop / into_inner calls of `db` (outside cleanup) on field `fi` of the ADT `path`"""
    takes = []
    for bi, t, c in db.calls():
        if db.blocks[bi]["cleanup"]:
            continue
        if c.key in ("std::mem::ManuallyDrop::take", "std::mem::ManuallyDrop::drop", "std::mem::ManuallyDrop::into_inner"):
            a0 = env.ev.operand(ctx, t["args"][0])
            root, fl = place_path(a0)
            if any(x[0] == fi and x[2] == path for x in fl):
                takes.append((bi, t, c))
    return takes


def _release_verdict(env, hb, hctx, fi, path):
    """'ok' when every normal path of the helper `hb` takes field `fi` out of its ManuallyDrop and the taken value is dropped
    (scope end or mem::drop) and never handed to a leak primitive; 'no' otherwise"""
    takes = _field_takes(env, hb, hctx, fi, path)
    if not takes:
        return "no"
    tb = {x[0] for x in takes}
    exits = set(hb.exits())
    if not any(e in tb for e in exits) and 0 not in tb and hb.paths_avoiding(0, exits, tb):
        return "no"
    okdrop = False
    for (bi, t, c) in takes:
        if c.key.endswith("ManuallyDrop::drop"):
            okdrop = True
            continue
        al = _alias_locals(hb, t["dest"]["l"])
        for bj, blk in enumerate(hb.blocks):
            tt = blk["term"]
            if blk["cleanup"]:
                continue
            if tt["k"] == "drop" and not tt["place"]["p"] and tt["place"]["l"] in al:
                okdrop = True
            if tt["k"] == "call":
                c2 = hb.callee(bj)
                if c2 and not c2.indirect and c2.key == "std::mem::drop" and any(
                        ao["k"] in ("move", "copy") and not ao["place"]["p"] and ao["place"]["l"] in al for ao in tt["args"]):
                    okdrop = True
                if c2 and not c2.indirect and c2.key in LEAK_PRIMS and any(
                        ao["k"] in ("move", "copy") and not ao["place"]["p"] and ao["place"]["l"] in al for ao in tt["args"]):
                    return "no"
    return "ok" if okdrop else "no"


def rule_leak(env, shared):
    """LEAK: every ManuallyDrop field that owns heap memory is released on every path of Drop::drop; leak primitives are
    used only in the justified places (constructors wrapping the collection, the remainder split's re-wrap)."""
    out = []
    R, F, ev = env.R, env.F, env.ev
    n_fields = 0
    for path, a in F.adts.items():
        if a["kind"] != "Struct":
            continue
        for fi, f in enumerate(a["variants"][0]["fields"]):
            s = f["ty"]["s"]
            if "ManuallyDrop<" not in s:
                continue
            heap = any(h in s for h in ("std::vec::Vec<", "std::boxed::Box<", "std::string::String", "std::collections::"))
            if not heap:
                continue
            n_fields += 1
            nm = a["name"]
            k = "LEAK|%s|%s" % (nm, f["name"])
            dfn = a.get("drop_fn")
            if not dfn or dfn not in F.bodies:
                out.append(Ob("LEAK", k, "viol", "-", "%s.%s owns heap memory inside ManuallyDrop but %s has no Drop impl" % (
                    nm, f["name"], nm)))
                continue
            db = F.bodies[dfn]
            ctx = env.ctx(db, path, env.world_of(path))
            # take / drop events on that field, directly in Drop::drop
            takes = _field_takes(env, db, ctx, fi, path)
            # ... or in a private release helper that Drop hands itself to: the helper must release on every one of its
            # own paths (judged like Drop); its call then counts as the release
            helper_calls = set()
            for bi, t, c in db.calls():
                if db.blocks[bi]["cleanup"] or c.indirect or not t["args"]:
                    continue
                hd = F.resolve_callee(c, path, None)
                hb = F.bodies.get(hd) if hd else None
                if hb is None or hb is db or hb.is_closure:
                    continue
                a0 = ev.operand(ctx, t["args"][0])
                if place_path(unref(a0))[0] != ("param", 1) or place_path(unref(a0))[1]:
                    continue
                hctx = env.ctx(hb, path, env.world_of(path))
                if _release_verdict(env, hb, hctx, fi, path) == "ok":
                    helper_calls.add(bi)
            if not takes and not helper_calls:
                out.append(Ob("LEAK", k, "viol", db.file_line(),
                              "Drop of %s never takes `%s` out of its ManuallyDrop: the allocation of the consumed collection "
                              "is never freed" % (nm, f["name"])))
                continue
            tb = {x[0] for x in takes} | helper_calls
            exits = set(db.exits())
            if any(e in tb for e in exits):
                bypass = False
            else:
                bypass = db.paths_avoiding(0, exits, tb)
            if bypass and 0 not in tb:
                out.append(Ob("LEAK", k, "viol", db.file_line(),
                              "Drop of %s releases `%s` only on some paths: on the others the allocation leaks" % (nm, f["name"])))
                continue
            # the taken value must be dropped (scope end) and not forgotten / re-wrapped
            bad = None
            okdrop = bool(helper_calls)
            for (bi, t, c) in takes:
                if c.key.endswith("ManuallyDrop::drop"):
                    okdrop = True
                    continue
                dl = t["dest"]["l"]
                al = _alias_locals(db, dl)
                for bj, blk in enumerate(db.blocks):
                    tt = blk["term"]
                    if blk["cleanup"]:
                        continue
                    if tt["k"] == "drop" and not tt["place"]["p"] and tt["place"]["l"] in al:
                        okdrop = True
                    if tt["k"] == "call":
                        c2 = db.callee(bj)
                        if c2 and not c2.indirect and c2.key == "std::mem::drop" and any(
                                ao["k"] in ("move", "copy") and not ao["place"]["p"] and ao["place"]["l"] in al
                                for ao in tt["args"]):
                            okdrop = True
                        if c2 and not c2.indirect and c2.key in LEAK_PRIMS:
                            for ao in tt["args"]:
                                if ao["k"] in ("move", "copy") and not ao["place"]["p"] and ao["place"]["l"] in al:
                                    bad = (db.file_line(tt["loc"]), c2.key)
            if bad:
                out.append(Ob("LEAK", k, "viol", bad[0], "Drop of %s takes `%s` but passes it to %s: the allocation leaks" % (
                    nm, f["name"], bad[1])))
            elif not okdrop:
                out.append(Ob("LEAK", k, "viol", db.file_line(), "Drop of %s takes `%s` but never drops the taken value" % (
                    nm, f["name"])))
            else:
                out.append(Ob("LEAK", k, "ok", db.file_line(), "allocation taken out of ManuallyDrop and dropped on every path of Drop",
                              True))
    if n_fields == 0:
        out.append(Ob("LEAK", "LEAK|no-fields", "viol", "-", "no heap-owning ManuallyDrop field found (anchor lost)"))
    # leak primitives
    for b in F.non_test_bodies():
        for bi, t, c in b.calls():
            if b.blocks[bi]["cleanup"] or c.indirect or c.key not in LEAK_PRIMS:
                continue
            sa = F.impl_self_adt(b)
            k = "LEAK.prim|%s|%s" % (env.fname(b), c.key.split("::")[-2] + "::" + c.key.split("::")[-1])
            if any(o.key == k for o in out):
                continue
            ok = False
            why = ""
            r = R.impl.get(sa)
            if c.key.endswith("ManuallyDrop::new") and r is not None:
                ctx = env.ctx(b, sa, None)
                # constructor: the wrapped value is a parameter (the collection being consumed) stored into the struct
                a0 = unref(ev.operand(ctx, t["args"][0]))
                if a0[0] == "param" and receiver_kind(b, F) is None:
                    ok, why = True, "constructor wraps the consumed collection (released by Drop: rule LEAK)"
                elif exclusive_only(env, b):
                    # re-wrap inside the remainder split: the value wrapped must come from ManuallyDrop::take of the same field
                    src = fmt(a0)
                    if "ManuallyDrop::take" in src:
                        ok, why = True, "re-wrap of the taken storage inside the exclusive remainder split (released by Drop)"
            if ok:
                out.append(Ob("LEAK.prim", k, "ok", b.file_line(t["loc"]), why))
            else:
                out.append(Ob("LEAK.prim", k, "viol", b.file_line(t["loc"]),
                              "%s calls the leak primitive %s outside the justified places (constructors, remainder split): "
                              "whatever it is applied to is never released" % (env.fname(b), c.key)))
    return out


# ---------------------------------------------------------------------------------------------------
def rule_pre(env, shared):
    """PRE: every call of an `unsafe` function defined outside the crate is an obligation with a per-callee rule (a callee
    without a rule fails closed); debug_assert! conditions of helpers are entailed at every call site."""
    out = []
    R, F, ev = env.R, env.F, env.ev
    m = _m1(env)
    n = 0
    # contexts in which helpers are reached: pull units + standalone bodies
    sites = {}
    for u in m.units:
        for e in u.events:
            if e.kind == "call" and e.callee.unsafe and not e.callee.local:
                sites.setdefault((e.body.def_, e.bb), []).append((e, u))
    covered = set()
    for u in m.units:
        for e in u.events:
            covered.add(e.body.def_)
    for b in F.non_test_bodies():
        if b.def_ in covered:
            continue  # judged in the context of the pull units that inline it
        sa = F.impl_self_adt(b)
        w = None
        for ww in env.worlds():
            if ww["iter"] == sa or ww["puller"] == sa:
                w = ww
        for e in env.flat_events(b, sa, w):
            if e.kind == "call" and e.callee.unsafe and not e.callee.local:
                if e.body.def_ in covered and e.body is not b and not any(cb.def_ not in covered for (cb, _, _) in e.info["chain"]):
                    continue
                sites.setdefault((e.body.def_, e.bb), []).append((e, None))
    rank = {"ok": 0, "undecided": 1, "viol": 2}
    res = {}

    def put(o):
        p = res.get(o.key)
        if p is None or rank[o.status] > rank[p.status]:
            res[o.key] = o

    for (bdef, bb), lst in sorted(sites.items()):
        body = F.bodies[bdef]
        ck = lst[0][0].callee.key
        short = "::".join(ck.split("::")[-2:])
        fn = env.fname(body)
        standalone_only = all(u is None and not e.info["chain"] for (e, u) in lst)
        if F.impl_self_adt(body) in env.view_adts():
            key = "PRE|%s|%s|view-internal" % (fn, short)
            put(Ob("PRE", key, "ok", lst[0][0].loc(),
                   "raw access to the view's own elements: justified by the view discipline (rule OWN.view) and the bounds of "
                   "its construction (rule CLAMP)"))
            continue
        for (e, u) in lst:
            # helpers with preconditions of their own (unsafe fn) are judged where they are inlined into a caller
            root = F.bodies.get(body.root, body) if body.is_closure else body
            is_unsafe_helper = (root.info or {}).get("unsafe", False)
            if is_unsafe_helper and not e.info["chain"] and u is None and not standalone_only:
                continue
            a = e.args
            p = cprover(m, env, e)
            if ck.endswith("Vec::from_raw_parts"):
                ln, cap = m.canon(unref(a[1])), m.canon(unref(a[2]))
                key = "PRE|%s|%s|len<=capacity|cap=%s" % (fn, short, fmt(cap)[:30])
                if p.le(ln, cap):
                    put(Ob("PRE", key, "ok", e.loc(), "length <= capacity entailed", True))
                else:
                    put(Ob("PRE", key, "viol", e.loc(),
                           "Vec::from_raw_parts is called with capacity %s and a length (%s) that is not known to be <= it: "
                           "the documented precondition `length <= capacity` is violated (debug builds of std abort: unsafe "
                           "precondition(s) violated), and the pointer was not allocated with that capacity" % (
                               fmt(cap), fmt(ln)[:100])))
            elif ck in ("std::ptr::mut_ptr::add", "std::ptr::const_ptr::add"):
                role, adt = R.classify(a[0])
                key = "PRE|%s|%s|offset<=len" % (fn, short)
                if role != "store":
                    put(Ob("PRE", key + "|local", "ok", e.loc(), "pointer arithmetic on a local object"))
                    continue
                L = storage_len(m, env, a[0])
                off = m.canon(unref(a[1]))
                if L is not None and p.le(off, L):
                    put(Ob("PRE", key, "ok", e.loc(), "offset <= LEN entailed at this call path", True))
                elif body.is_closure and _is_clarg(off, 2) and exclusive_only(env, F.bodies.get(body.root, body)):
                    put(Ob("PRE", key, "ok", e.loc(), "offset ranges over [split index, LEN) (rule OWN.a)", True))
                else:
                    put(Ob("PRE", key, "viol" if (u is not None or e.info["chain"] or not is_unsafe_helper) else "undecided",
                           e.loc(), "cannot establish offset %s <= LEN for pointer arithmetic on the storage" % fmt(off)[:80]))
            elif ck in ("std::ptr::const_ptr::read", "std::ptr::mut_ptr::read", "std::ptr::read"):
                role, adt = R.classify(a[0])
                key = "PRE|%s|%s|index<len" % (fn, short)
                off = None
                for x in subterms(a[0]):
                    if x[0] == "call" and x[1] == "ptr_add":
                        off = m.canon(unref(x[2][1]))
                L = storage_len(m, env, a[0])
                if off is not None and L is not None and p.lt(off, L):
                    put(Ob("PRE", key, "ok", e.loc(), "read of an in-bounds, initialised element (index < LEN)", True))
                elif body.is_closure and _is_clarg(off, 2) and exclusive_only(env, F.bodies.get(body.root, body)):
                    put(Ob("PRE", key, "ok", e.loc(), "index ranges over [split index, LEN) (rule OWN.a)", True))
                else:
                    put(Ob("PRE", key, "viol" if (u is not None or e.info["chain"] or not is_unsafe_helper) else "undecided",
                           e.loc(), "cannot establish index < LEN for the raw read"))
            elif ck in ("std::ptr::mut_ptr::write", "std::ptr::write"):
                key = "PRE|%s|%s|dst" % (fn, short)
                d = fmt(a[0])
                okk = "MaybeUninit::as_mut_ptr" in d and R.classify(a[0])[0] not in ("store", "cell")
                put(Ob("PRE", key, "ok" if okk else "viol", e.loc(),
                       "write into a local MaybeUninit" if okk else "raw write to %s" % d[:100]))
            elif ck == "std::mem::MaybeUninit::assume_init":
                key = "PRE|%s|%s|initialised" % (fn, short)
                okk = False
                for bi2, t2, c2 in body.calls():
                    if c2.key in ("std::ptr::mut_ptr::write", "std::ptr::write") and body.dominates(bi2, e.bb):
                        okk = True
                put(Ob("PRE", key, "ok" if okk else "viol", e.loc(),
                       "assume_init is dominated by a write of the value" if okk else
                       "assume_init without a dominating write: reads uninitialised memory"))
            elif ck == "std::mem::ManuallyDrop::take":
                key = "PRE|%s|%s|slot-not-reused" % (fn, short)
                root = F.bodies.get(body.root, body) if body.is_closure else body
                is_drop = (root.info or {}).get("name") == "drop" and "Drop" in ((root.info or {}).get("trait") or "")
                rewrapped = False
                for bi2, blk in enumerate(body.blocks):
                    if blk["cleanup"]:
                        continue
                    for s in blk["stmts"]:
                        if s["k"] == "assign" and s["place"]["p"] and s["place"]["p"][0]["k"] == "deref" \
                                and "ManuallyDrop::new" in fmt(env.ev.rvalue(e.ctx, s["rv"])) and bi2 in body.reachable(e.bb):
                            rewrapped = True
                if not is_drop and not rewrapped and not body.is_closure:
                    sites = env.callers_of(body.def_, [(b2, None) for b2 in F.non_test_bodies()])
                    is_drop = bool(sites) and all(
                        (b2.info or {}).get("name") == "drop" and "Drop" in ((b2.info or {}).get("trait") or "")
                        and not b2.is_closure for b2, _, _ in sites)
                okk = is_drop or rewrapped
                put(Ob("PRE", key, "ok" if okk else "viol", e.loc(),
                       ("taken in Drop: the slot is never used again" if is_drop else
                        "the slot is re-initialised before the function returns") if okk else
                       "ManuallyDrop::take leaves a moved-from slot that stays reachable"))
            elif ck == "std::ptr::drop_in_place":
                key = "PRE|%s|%s|owned-interval" % (fn, short)
                sl = unref(a[0])
                okk = False
                if sl[0] == "call" and sl[1] == "slice_from_raw_parts" and len(sl[2]) == 2:
                    ptr, ln = unref(sl[2][0]), m.canon(unref(sl[2][1]))
                    L = storage_len(m, env, ptr)
                    off = None
                    for x in subterms(ptr):
                        if x[0] == "call" and x[1] == "ptr_add":
                            off = m.canon(unref(x[2][1]))
                    if off is not None and off[0] == "payload":
                        off2 = m.canon(ev.payload(e.ctx, off[1]))
                    else:
                        off2 = off
                    if L is not None and ln[0] == "bin" and ln[1] == "Sub" and ln[2] == L and off is not None \
                            and m.canon(unref(ln[3])) in (off, off2) and (p.le(off2, L) or p.le(off, L)):
                        okk = True
                put(Ob("PRE", key, "ok" if okk else "viol", e.loc(),
                       "drops [begin, LEN) with begin <= LEN (the reserved interval: rule OWN.d)" if okk else
                       "cannot establish that drop_in_place covers an interval inside the storage owned by the caller", True))
            elif ck == "std::vec::Vec::set_len":
                key = "PRE|%s|%s|len<=capacity" % (fn, short)
                v = unref(a[1])
                okk = v == ("int", 0)
                put(Ob("PRE", key, "ok" if okk else "viol", e.loc(),
                       "set_len(0) needs no initialised elements" if okk else "set_len(%s) is not justified" % fmt(v)))
            else:
                key = "PRE|%s|%s|no-rule" % (fn, short)
                put(Ob("PRE", key, "viol", e.loc(),
                       "call of the unsafe function %s has no precondition rule in the checker (fail closed): add a rule after "
                       "reading its safety contract" % ck))
    out.extend(res.values())
    # writes through raw pointers (`*p = v` with p: *mut T) are not calls: enumerate them as well
    for b in F.non_test_bodies():
        ctxb = env.ctx(b, F.impl_self_adt(b), None)
        for bi, blk in enumerate(b.blocks):
            if blk["cleanup"]:
                continue
            for st in blk["stmts"]:
                if st["k"] != "assign":
                    continue
                pl = st["place"]
                if not pl["p"] or pl["p"][0]["k"] != "deref":
                    continue
                lty = b.locals[pl["l"]]["ty"]
                if lty.get("k") != "ptr":
                    continue
                key = "PRE|%s|raw-write" % env.fname(b)
                if st["loc"].get("expn") in ("macro:std::vec", "macro:alloc::vec"):
                    # the body of std's `vec![..]` (box the array, write it, turn the box into a Vec): std's own code
                    out.append(Ob("PRE", key + "|vec!", "ok", b.file_line(st["loc"]), "inside the expansion of std's vec! macro"))
                    continue
                ptr = ev.local(ctxb, pl["l"])
                role, adt = R.classify(ptr)
                if role in ("store", "cell") or adt is not None:
                    out.append(Ob("PRE", key, "viol", b.file_line(st["loc"]),
                                  "%s writes through a raw pointer into the storage of %s (%s): no rule justifies a write to "
                                  "shared storage" % (env.fname(b), env.sname(adt), fmt(ptr)[:80])))
                elif "MaybeUninit" in fmt(ptr) or ptr[0] == "ref":
                    out.append(Ob("PRE", key, "ok", b.file_line(st["loc"]), "write through a raw pointer to a local"))
                else:
                    out.append(Ob("PRE", key, "viol", b.file_line(st["loc"]),
                                  "%s writes through a raw pointer of unknown origin (%s): fail closed" % (
                                      env.fname(b), fmt(ptr)[:80])))
    # debug_assert! conditions
    for b in F.non_test_bodies():
        for bi, blk in enumerate(b.blocks):
            t = blk["term"]
            if t["k"] != "switch" or t.get("discr_ty") != "bool":
                continue
            # a debug_assert! condition: one successor only panics, with the panic call coming from the macro
            is_dbg = False
            for s_ in b.succ(bi):
                if _only_panics2(b, s_):
                    for x in b.reachable(s_):
                        mac = b.term(x)["loc"].get("outer_macro") or ""
                        if mac.split("::")[-1].startswith("debug_assert"):
                            is_dbg = True
            if not is_dbg:
                continue
            # only the outermost condition switch of the macro (cfg!(debug_assertions) constant switches are skipped)
            if t["discr"]["k"] == "const":
                continue
            sctx0 = env.ctx(b, F.impl_self_adt(b), None)
            if ev.operand(sctx0, t["discr"])[0] in ("int", "const"):
                continue  # `if cfg!(debug_assertions)`
            key = "PRE.dbg|%s" % env.fname(b)
            callers = all_callers(env, b.def_)
            if not callers:
                out.append(Ob("PRE.dbg", key, "undecided", b.file_line(t["loc"]), "debug_assert in a function without callers"))
                continue
            allok = True
            from guards import bool_facts
            for (cb, cbb) in callers:
                sa = F.impl_self_adt(cb)
                w = None
                for ww in env.worlds():
                    if ww["iter"] == sa:
                        w = ww
                cctx = env.ctx(cb, sa, w)
                nctx = ev.callee_ctx(cctx, cbb)
                if nctx is None:
                    allok = False
                    continue
                cond = ev.operand(nctx, t["discr"])
                fs = bool_facts(cond, True)
                facts = [tuple(m.canon(x) if isinstance(x, tuple) else x for x in f) for f in block_facts(ev, cctx, cbb)]
                pr = CProver(facts, ev, cctx)
                for f in fs:
                    if f[0] == "le" and len(f) == 3:
                        if not pr.le(m.canon(f[1]), m.canon(f[2])):
                            allok = False
                    elif f[0] == "lt" and len(f) == 3:
                        if not pr.lt(m.canon(f[1]), m.canon(f[2])):
                            allok = False
                    else:
                        allok = False
            out.append(Ob("PRE.dbg", key, "ok" if allok else "viol", b.file_line(t["loc"]),
                          "debug_assert! condition is entailed at all %d call sites (debug and release builds agree)" % len(callers)
                          if allok else
                          "a debug_assert! in %s is not entailed at every call site: debug builds panic where release builds "
                          "continue" % env.fname(b), True))
    return out


def _only_panics2(b, s):
    seen = set()
    st = [s]
    while st:
        x = st.pop()
        if x in seen:
            continue
        seen.add(x)
        if b.term(x)["k"] == "return":
            return False
        st.extend(b.succ(x))
    return True
