"""FWD: the cloned()/copied() adaptors and their chunk pullers forward every method to the same-named method of the one
inner iterator, with unchanged arguments, mapping the result only by clone/copy. EACH: the default algorithms.
"""
from env import Ob
from guards import block_facts, unref
from terms import fmt, subterms
from roles import place_path

SELF_DISPATCH = {"next_id_and_value": "fetch_one", "next_chunk": "fetch_n", "skip_to_end": "early_exit"}
MAPPERS = ("Option::cloned", "Option::copied", "Iterator::cloned", "Iterator::copied")


def _crate_rets(env, t):
    out = []
    for x in subterms(t):
        if x[0] == "ret" and any(x[1].startswith(tr + "::") for tr in (env.R.T_CON, env.R.T_ATOMIC, env.R.T_LEN, env.R.T_CHUNK)
                                 if tr):
            if x not in out:
                out.append(x)
    return out


def _replace(t, old, new):
    if t == old:
        return new
    if not isinstance(t, tuple):
        return t
    return tuple(_replace(x, old, new) if isinstance(x, tuple) else x for x in t)


def _is_field_of(t, base_pred, idx):
    t = unref(t)
    return t[0] == "field" and t[2] == idx and base_pred(t[1])


def rule_fwd(env, shared):
    out = []
    R, F, ev = env.R, env.F, env.ev
    shapes = {}
    for adt in R.adaptors:
        r = R.impl[adt]
        nm = r["name"]
        inner_idx = r["inner_field"]
        # struct shape
        extra = [f["name"] for i, f in enumerate(r["fields"]) if i != inner_idx and "PhantomData" not in f["ty"]["s"]]
        k = "FWD|%s|struct" % nm
        out.append(Ob("FWD", k, "viol" if extra else "ok", "-",
                      "adaptor has state besides the inner iterator: %s" % extra if extra else
                      "adaptor = inner iterator + PhantomData"))
        targets = []
        for tr in (R.T_ATOMIC, R.T_LEN, R.T_CON):
            i = F.trait_impls.get((tr, adt))
            if not i:
                continue
            for mname, m in i["items"].items():
                if isinstance(m, dict) and m["def"] in F.bodies:
                    targets.append((tr, mname, F.bodies[m["def"]], adt, "adaptor"))
        pul = r.get("puller")
        if pul:
            i = F.trait_impls.get((R.T_CHUNK, pul))
            if i:
                for mname, m in i["items"].items():
                    if isinstance(m, dict) and m["def"] in F.bodies:
                        targets.append((R.T_CHUNK, mname, F.bodies[m["def"]], pul, "puller"))
        for (tr, mname, b, sadt, what) in targets:
            ctx = env.ctx(b, sadt, None)
            t = ev.local(ctx, 0)
            if mname in SELF_DISPATCH and what == "adaptor" and tr == R.T_CON:
                # forwarding to a method of Self: judged on the direct (not inlined) call
                from terms import Evaluator, Ctx
                ev0 = Evaluator(F, inline=False)
                ctx = Ctx(b, self_adt=sadt, stack=(b.def_,))
                t = ev0.local(ctx, 0)
            key = "FWD|%s|%s::%s" % (nm, tr.split("::")[-1], mname)
            loc = b.file_line()
            nparams = b.arg_count
            # unsafe / raw operations
            unsafe_calls = [c.key for _, _, c in b.calls() if c.unsafe]
            if unsafe_calls or (b.info or {}).get("unsafe"):
                out.append(Ob("FWD", key + "|no-unsafe", "viol", loc, "adaptor method uses unsafe operations: %s" % unsafe_calls))
            rets = _crate_rets(env, t)
            # constructors of the puller: {chunk: C::new(chunk_size), phantom}
            if what == "puller" and mname == "new":
                okk = len(rets) == 1 and rets[0][1].endswith("::new") and rets[0][2] == (("param", 1),) and t[0] == "agg"
                out.append(Ob("FWD", key, "ok" if okk else "viol", loc,
                              "builds the inner puller with the same chunk size" if okk else
                              "the adaptor's puller is not built from the inner puller with the same chunk size: %s" % fmt(t)[:120],
                              True))
                shapes.setdefault(mname + "@" + what, {})[nm] = _norm_shape(fmt(t))
                continue
            if mname == "buffered_iter":
                # BufferedIter::new(Puller::new(chunk_size), self)
                news = [x for x in rets if x[1].endswith("BufferedChunk::new")]
                okk = len(news) == 1 and news[0][2] == (("param", 2),)
                # the result must be built from that puller and self
                txt = fmt(t)
                okk = okk and ("arg1" in txt)
                out.append(Ob("FWD", key, "ok" if okk else "viol", loc,
                              "buffered iterator over self with a puller of the same chunk size" if okk else
                              "buffered_iter of the adaptor does not build its puller from the given chunk size: %s" % txt[:140],
                              True))
                shapes.setdefault(mname + "@" + what, {})[nm] = _norm_shape(fmt(t))
                continue
            if len(rets) != 1:
                out.append(Ob("FWD", key, "viol", loc,
                              "the adaptor method does not forward to exactly one method of the inner iterator (%d crate trait "
                              "calls in its result): %s" % (len(rets), fmt(t)[:160])))
                continue
            rt = rets[0]
            callee_name = rt[1].split("::")[-1]
            want_self = mname in SELF_DISPATCH and what == "adaptor" and tr == R.T_CON
            want_name = SELF_DISPATCH[mname] if want_self else mname
            if callee_name != want_name:
                out.append(Ob("FWD", key, "viol", loc, "forwards to `%s` instead of `%s`" % (callee_name, want_name)))
                continue
            args = rt[2]
            a0 = unref(args[0]) if args else None
            recv_ok = False
            if want_self:
                recv_ok = a0 in (("param", 1), ("deref", ("param", 1)))
            elif what == "adaptor":
                recv_ok = a0 is not None and a0[0] == "field" and a0[2] == inner_idx
            else:
                # puller: receiver is its inner puller field (the only non-phantom field)
                recv_ok = a0 is not None and a0[0] == "field"
            rest = [unref(x) for x in args[1:]]
            if what == "puller" and mname == "pull":
                # pull(inner_chunk, underlying(iter), begin_idx)
                p_ok = len(rest) == 2 and rest[1] == ("param", 3)
                it = rest[0] if rest else None
                # iter argument: the inner field of the adaptor reached from param 2
                root, fl = place_path(it) if it is not None else (None, [])
                p_ok = p_ok and root == ("param", 2) and len(fl) == 1 and fl[0][0] == inner_idx
                args_ok = p_ok
            else:
                args_ok = rest == [("param", i) for i in range(2, 2 + len(rest))] and len(rest) == nparams - 1
            if not (recv_ok and args_ok):
                out.append(Ob("FWD", key, "viol", loc,
                              "arguments are not forwarded unchanged to the inner iterator: receiver ok=%s, args=%s" % (
                                  recv_ok, [fmt(x)[:40] for x in args])))
                continue
            # wrapper shape
            hole = ("hole",)
            wt = _replace(t, rt, hole)
            wt = unref(wt)
            while wt[0] in ("deref", "ref"):
                wt = wt[1]
            shape = None
            if wt == hole:
                shape = "identity"
            elif wt[0] == "call" and wt[1] in MAPPERS and wt[2] and unref(wt[2][0]) == hole:
                shape = wt[1]
            elif wt[0] == "call" and wt[1] == "Option::map" and len(wt[2]) == 2 and unref(wt[2][0]) == hole:
                clo = unref(wt[2][1])
                if clo[0] == "agg" and clo[1].startswith("closure:"):
                    cb = F.bodies.get(clo[1][len("closure:"):])
                    if cb is not None:
                        cctx = env.ctx(cb, sadt, None)
                        ct = unref(ev.local(cctx, 0))
                        pay = unref(ev.payload(ctx, rt))
                        x = ("param", 2)
                        cands = (x, pay)

                        def is_x(z):
                            return unref(z) in cands
                        if ct[0] == "agg" and ct[1].endswith("NextChunk::NextChunk") and len(ct[2]) == 2:
                            b0, v0 = unref(ct[2][0]), unref(ct[2][1])
                            if b0[0] == "field" and b0[2] == 0 and is_x(b0[1]) and v0[0] == "call" and v0[1] in MAPPERS \
                                    and unref(v0[2][0])[0] == "field" and unref(v0[2][0])[2] == 1 and is_x(unref(v0[2][0])[1]):
                                shape = "map:NextChunk{begin_idx, %s(values)}" % v0[1]
                        elif ct[0] == "call" and ct[1] in MAPPERS and is_x(ct[2][0]):
                            shape = "map:%s" % ct[1]
            if shape is None:
                out.append(Ob("FWD", key, "viol", loc,
                              "the result of the inner call is not passed through unchanged / mapped only by clone or copy: %s"
                              % fmt(t)[:180]))
                continue
            out.append(Ob("FWD", key, "ok", loc, "forwards to inner `%s`, result: %s" % (want_name, shape), True))
            shapes.setdefault(mname + "@" + what + "@" + tr.split("::")[-1], {})[nm] = _norm_shape(shape)
    # the two adaptors agree method by method
    names = [R.impl[a]["name"] for a in R.adaptors]
    if len(names) == 2:
        for mk, d in sorted(shapes.items()):
            k = "FWD.iso|%s" % mk
            if len(d) != 2:
                out.append(Ob("FWD.iso", k, "viol", "-", "method %s is forwarded by only one of the adaptors %s" % (mk, names)))
            elif len(set(d.values())) != 1:
                out.append(Ob("FWD.iso", k, "viol", "-", "the adaptors disagree on %s: %s" % (mk, d)))
            else:
                out.append(Ob("FWD.iso", k, "ok", "-", "both adaptors forward %s the same way" % mk))
    return out


def _norm_shape(s):
    for a, b in (("Cloned", "X"), ("Copied", "X"), ("cloned", "x"), ("copied", "x"), ("Clone", "X"), ("Copy", "X")):
        s = s.replace(a, b)
    return s
