"""FWD: the cloned()/copied() adaptors and their chunk pullers forward every method to the same-named method of the one
inner iterator, with unchanged arguments, mapping the result only by clone/copy. EACH: the default algorithms.
"""
import re
from env import Ob
from guards import block_facts, unref
from terms import fmt, subterms
from roles import place_path
from facts import adt_of
import r_m1

SELF_DISPATCH = {"next_id_and_value": "fetch_one", "next_chunk": "fetch_n", "skip_to_end": "early_exit"}
MAPPERS = ("Option::cloned", "Option::copied", "Iterator::cloned", "Iterator::copied")


def _crate_rets(env, t):
    out = []
    for x in subterms(t):
        if x[0] == "ret" and any(x[1].startswith(tr + "::") for tr in (env.R.T_CON, env.R.T_ATOMIC, env.R.T_LEN, env.R.T_CHUNK)
                                 if tr):
            if x not in out:
                out.append(x)
    return out


def _replace(t, old, new):
    if t == old:
        return new
    if not isinstance(t, tuple):
        return t
    return tuple(_replace(x, old, new) if isinstance(x, tuple) else x for x in t)


def _is_field_of(t, base_pred, idx):
    t = unref(t)
    return t[0] == "field" and t[2] == idx and base_pred(t[1])


def rule_fwd(env, shared):
    out = []
    R, F, ev = env.R, env.F, env.ev
    shapes = {}
    for adt in R.adaptors:
        r = R.impl[adt]
        nm = r["name"]
        inner_idx = r["inner_field"]
        # struct shape
        extra = [f["name"] for i, f in enumerate(r["fields"]) if i != inner_idx and "PhantomData" not in f["ty"]["s"]]
        k = "FWD|%s|struct" % nm
        out.append(Ob("FWD", k, "viol" if extra else "ok", "-",
                      "adaptor has state besides the inner iterator: %s" % extra if extra else
                      "adaptor = inner iterator + PhantomData"))
        targets = []
        for tr in (R.T_ATOMIC, R.T_LEN, R.T_CON):
            i = F.trait_impls.get((tr, adt))
            if not i:
                continue
            for mname, m in i["items"].items():
                if isinstance(m, dict) and m["def"] in F.bodies:
                    targets.append((tr, mname, F.bodies[m["def"]], adt, "adaptor"))
        pul = r.get("puller")
        if pul:
            i = F.trait_impls.get((R.T_CHUNK, pul))
            if i:
                for mname, m in i["items"].items():
                    if isinstance(m, dict) and m["def"] in F.bodies:
                        targets.append((R.T_CHUNK, mname, F.bodies[m["def"]], pul, "puller"))
        for (tr, mname, b, sadt, what) in targets:
            ctx = env.ctx(b, sadt, None)
            t = ev.local(ctx, 0)
            if mname in SELF_DISPATCH and what == "adaptor" and tr == R.T_CON:
                # forwarding to a method of Self: judged on the direct (not inlined) call
                from terms import Evaluator, Ctx
                ev0 = Evaluator(F, inline=False)
                ctx = Ctx(b, self_adt=sadt, stack=(b.def_,))
                t = ev0.local(ctx, 0)
            key = "FWD|%s|%s::%s" % (nm, tr.split("::")[-1], mname)
            loc = b.file_line()
            nparams = b.arg_count
            # unsafe / raw operations
            unsafe_calls = [c.key for _, _, c in b.calls() if c.unsafe]
            if unsafe_calls or (b.info or {}).get("unsafe"):
                out.append(Ob("FWD", key + "|no-unsafe", "viol", loc, "adaptor method uses unsafe operations: %s" % unsafe_calls))
            rets = _crate_rets(env, t)
            # constructors of the puller: {chunk: C::new(chunk_size), phantom}
            if what == "puller" and mname == "new":
                okk = len(rets) == 1 and rets[0][1].endswith("::new") and rets[0][2] == (("param", 1),) and t[0] == "agg"
                out.append(Ob("FWD", key, "ok" if okk else "viol", loc,
                              "builds the inner puller with the same chunk size" if okk else
                              "the adaptor's puller is not built from the inner puller with the same chunk size: %s" % fmt(t)[:120],
                              True))
                shapes.setdefault(mname + "@" + what, {})[nm] = _norm_shape(fmt(t))
                continue
            if mname == "buffered_iter":
                # BufferedIter::new(Puller::new(chunk_size), self)
                news = [x for x in rets if x[1].endswith("BufferedChunk::new")]
                okk = len(news) == 1 and news[0][2] == (("param", 2),)
                # the result must be built from that puller and self
                txt = fmt(t)
                okk = okk and ("arg1" in txt)
                out.append(Ob("FWD", key, "ok" if okk else "viol", loc,
                              "buffered iterator over self with a puller of the same chunk size" if okk else
                              "buffered_iter of the adaptor does not build its puller from the given chunk size: %s" % txt[:140],
                              True))
                shapes.setdefault(mname + "@" + what, {})[nm] = _norm_shape(fmt(t))
                continue
            if len(rets) != 1:
                out.append(Ob("FWD", key, "viol", loc,
                              "the adaptor method does not forward to exactly one method of the inner iterator (%d crate trait "
                              "calls in its result): %s" % (len(rets), fmt(t)[:160])))
                continue
            rt = rets[0]
            callee_name = rt[1].split("::")[-1]
            want_self = mname in SELF_DISPATCH and what == "adaptor" and tr == R.T_CON
            want_name = SELF_DISPATCH[mname] if want_self else mname
            if callee_name != want_name:
                out.append(Ob("FWD", key, "viol", loc, "forwards to `%s` instead of `%s`" % (callee_name, want_name)))
                continue
            args = rt[2]
            a0 = unref(args[0]) if args else None
            recv_ok = False
            if want_self:
                recv_ok = a0 in (("param", 1), ("deref", ("param", 1)))
            elif what == "adaptor":
                recv_ok = a0 is not None and a0[0] == "field" and a0[2] == inner_idx
            else:
                # puller: receiver is its inner puller field (the only non-phantom field)
                recv_ok = a0 is not None and a0[0] == "field"
            rest = [unref(x) for x in args[1:]]
            if what == "puller" and mname == "pull":
                # pull(inner_chunk, underlying(iter), begin_idx)
                p_ok = len(rest) == 2 and rest[1] == ("param", 3)
                it = rest[0] if rest else None
                # iter argument: the inner field of the adaptor reached from param 2
                root, fl = place_path(it) if it is not None else (None, [])
                p_ok = p_ok and root == ("param", 2) and len(fl) == 1 and fl[0][0] == inner_idx
                args_ok = p_ok
            else:
                args_ok = rest == [("param", i) for i in range(2, 2 + len(rest))] and len(rest) == nparams - 1
            if not (recv_ok and args_ok):
                out.append(Ob("FWD", key, "viol", loc,
                              "arguments are not forwarded unchanged to the inner iterator: receiver ok=%s, args=%s" % (
                                  recv_ok, [fmt(x)[:40] for x in args])))
                continue
            # wrapper shape, in canonical form: identity | option:<P> | iter:E, where the payload shape <P> is
            # identity | E (clone / copy of the element) | iter:E | NextChunk{begin_idx, iter:E}
            hole = ("hole",)
            wt = _replace(t, rt, hole)
            wt = unref(wt)
            while wt[0] in ("deref", "ref"):
                wt = wt[1]
            shape = None
            pay = unref(ev.payload(ctx, rt))
            cands = [("param", 2), pay, ("payload", rt)]
            if wt == hole:
                shape = "identity"
            elif wt[0] == "call" and wt[1] in ("Option::cloned", "Option::copied") and wt[2] and unref(wt[2][0]) == hole:
                shape = "option:E"
            elif wt[0] == "call" and wt[1] in ("Iterator::cloned", "Iterator::copied") and wt[2] and unref(wt[2][0]) == hole:
                shape = "iter:E"
            elif wt[0] == "call" and wt[1] == "Option::map" and len(wt[2]) == 2 and unref(wt[2][0]) == hole:
                clo = unref(wt[2][1])
                if clo[0] == "fnref":
                    # `opt.map(Iterator::copied)`: the mapping function named by path
                    base = re.sub(r"::<[^>]*>$", "", clo[1].strip())
                    last = base.rsplit("::", 1)[-1]
                    if last in ("copied", "cloned") and "iter::Iterator" in base:
                        shape = "option:iter:E"
                    elif (last == "clone" and "Clone" in base) or (last in ("copied", "cloned") and "option::Option" in base):
                        shape = "option:E"
                if clo[0] == "agg" and clo[1].startswith("closure:"):
                    cb = F.bodies.get(clo[1][len("closure:"):])
                    if cb is not None:
                        cctx = env.ctx(cb, sadt, None)
                        ps = _payload_shape(unref(ev.local(cctx, 0)), cands)
                        if not ps:
                            # (a closure of a small helper the adaptor hands the result to — `Self::copy_out(inner.get(i))`
                            #  with `copy_out(r) = r.map(|x| *x)` —: applied to the inner payload)
                            ps = _payload_shape(unref(ev.closure_ret(ctx, clo, [pay])), cands)
                        if ps:
                            shape = "option:" + ps
            elif b.locals[0]["ty"]["s"].replace("core::", "std::").startswith("std::option::Option<"):
                # written with `?` / match: None exactly when the inner call returned None, Some(mapped payload) otherwise
                from guards import local_cases
                cs = [c for c in (local_cases(ev, ctx, 0, True) or []) if c[0] in ("Some", "None")]
                shapes_here = set()
                good = bool(cs)
                for (K, fs, v) in cs:
                    if ("is_some", unref(rt), K == "Some") not in fs:
                        good = False
                    elif K == "Some":
                        ps = _payload_shape(unref(v[2][0]), cands) if (v is not None and v[0] == "agg" and v[2]) else None
                        if ps is None:
                            good = False
                        else:
                            shapes_here.add(ps)
                if good and len(shapes_here) == 1 and any(K == "None" for (K, _f, _v) in cs):
                    shape = "option:" + shapes_here.pop()
            if shape is None:
                out.append(Ob("FWD", key, "viol", loc,
                              "the result of the inner call is not passed through unchanged / mapped only by clone or copy: %s"
                              % fmt(t)[:180]))
                continue
            out.append(Ob("FWD", key, "ok", loc, "forwards to inner `%s`, result: %s" % (want_name, shape), True))
            shapes.setdefault(mname + "@" + what + "@" + tr.split("::")[-1], {})[nm] = _norm_shape(shape)
    # FWD.cover: a trait method with a default body that a base implementor overrides must be forwarded by the adaptors too —
    # the default is written against the shared counter only and knows nothing of what the override does (the end flag of
    # the wrapper, the dropping of skipped elements, the exhaustion guards)
    for tr in (R.T_ATOMIC, R.T_CON):
        t_ = F.traits.get(tr)
        if not t_:
            continue
        for it in t_["items"]:
            if not it["kind"].startswith("Fn"):
                continue
            mname = it["name"]
            overriding = []
            for adt, r in R.impl.items():
                if r["kind"] == "adaptor":
                    continue
                i = F.trait_impls.get((tr, adt))
                if i and isinstance(i["items"].get(mname), dict):
                    overriding.append(r["name"])
            for adt in R.adaptors:
                i = F.trait_impls.get((tr, adt))
                if not i:
                    continue
                own = i["items"].get(mname)
                if own != "default":
                    continue
                k = "FWD.cover|%s|%s::%s" % (R.impl[adt]["name"], tr.split("::")[-1], mname)
                dd = F.trait_default(tr, mname)
                # defaults that are themselves written in terms of other (forwarded) methods of Self only are fine when no
                # base implementor overrides them
                if overriding and tr == R.T_ATOMIC and mname in ("fetch_one", "fetch_n") and dd is not None and any(
                        u.world["iter"] == adt and u.body.def_ == dd for u in r_m1._m1(env).units):
                    # a pull entry point: what runs for the adaptor is the provided body over the adaptor's own (forwarded)
                    # primitives, and that body is analysed as the pull unit of every world of this adaptor by the unit rules
                    # (PROV / AMT / TICKET / GATE / LIVE / DONE ..) — an implementor that overrides the entry point for itself
                    # changes nothing for the adaptor
                    out.append(Ob("FWD.cover", k, "ok", "-", "the provided `%s` is the adaptor's pull unit (analysed per world)"
                                  % mname))
                elif overriding:
                    out.append(Ob("FWD.cover", k, "viol", "-",
                                  "%s does not forward `%s` although %s override(s) it: through the adaptor the trait's default "
                                  "body runs instead of the underlying iterator's own implementation" % (
                                      R.impl[adt]["name"], mname, ", ".join(overriding))))
                else:
                    out.append(Ob("FWD.cover", k, "ok", "-", "no base implementor overrides the default `%s`" % mname))
    # the two adaptors agree method by method
    names = [R.impl[a]["name"] for a in R.adaptors]
    if len(names) == 2:
        for mk, d in sorted(shapes.items()):
            k = "FWD.iso|%s" % mk
            if len(d) != 2:
                out.append(Ob("FWD.iso", k, "viol", "-", "method %s is forwarded by only one of the adaptors %s" % (mk, names)))
            elif len(set(d.values())) != 1:
                out.append(Ob("FWD.iso", k, "viol", "-", "the adaptors disagree on %s: %s" % (mk, d)))
            else:
                out.append(Ob("FWD.iso", k, "ok", "-", "both adaptors forward %s the same way" % mk))
    return out


def _payload_shape(p, cands):
    """canonical shape of a payload expression over the inner payload (one of cands), or None"""
    p = unref(p)
    cands = [unref(c) for c in cands]

    def is_x(z):
        z = unref(z)
        return z in cands

    def is_field(z, i):
        z = unref(z)
        return z[0] == "field" and z[2] == i and is_x(z[1])
    if is_x(p):
        return "identity"
    if p[0] == "deref" and is_x(p[1]):
        return "E"  # `*value`: a copy (moving out of a reference type-checks for Copy types only)
    if p[0] == "call" and p[1] == "clone" and p[2] and (is_x(p[2][0]) or (unref(p[2][0])[0] == "deref" and is_x(unref(p[2][0])[1]))):
        return "E"
    if p[0] == "call" and p[1] in ("Iterator::cloned", "Iterator::copied") and p[2] and is_x(p[2][0]):
        return "iter:E"
    if p[0] == "agg" and p[1].endswith("Next::Next") and len(p[2]) == 2 and is_field(p[2][0], 0):
        v0 = unref(p[2][1])
        if is_field(v0, 1):
            return "identity"
        if v0[0] == "deref" and is_field(v0[1], 1):
            return "Next{idx, E}"
        if v0[0] == "call" and v0[1] == "clone" and v0[2]:
            a = unref(v0[2][0])
            if is_field(a, 1) or (a[0] == "deref" and is_field(a[1], 1)):
                return "Next{idx, E}"
    if p[0] == "agg" and p[1].endswith("NextChunk::NextChunk") and len(p[2]) == 2 and is_field(p[2][0], 0):
        v0 = unref(p[2][1])
        if is_field(v0, 1):
            return "identity"
        if v0[0] == "call" and v0[1] in ("Iterator::cloned", "Iterator::copied") and v0[2] and is_field(v0[2][0], 1):
            return "NextChunk{begin_idx, iter:E}"
    return None


def _norm_shape(s):
    for a, b in (("Cloned", "X"), ("Copied", "X"), ("cloned", "x"), ("copied", "x"), ("Clone", "X"), ("Copy", "X")):
        s = s.replace(a, b)
    return s


# ---------------------------------------------------------------------------------------------------
def _wrapper_adts(env):
    """local ADTs implementing std Iterator whose only field is a reference to a ConcurrentIter: the `values()` /
    `ids_and_values()` iterators (rule WRAP decides that their `next` hands on exactly what the pull returned)"""
    F, R = env.F, env.R
    out = set()
    for i in F.impls_of_trait.get("std::iter::Iterator", []):
        adt = adt_of(i["self_ty"])
        a = F.adts.get(adt) if adt else None
        if a is None:
            continue
        fs = a["variants"][0]["fields"]
        if len(fs) == 1 and fs[0]["ty"].get("k") == "ref" and any((R.T_CON.split("::")[-1]) in p for p in a.get("predicates", [])):
            out.add(adt)
    return out


def _user_call(c):
    return c is not None and not c.indirect and c.trait in ("std::ops::FnMut", "std::ops::FnOnce", "std::ops::Fn") \
        and c.self_param is not None


def rule_each(env, shared):
    """EACH: for_each / enumerate_for_each / fold delegate unchanged to the default algorithms (no overrides); each
    algorithm loops until the pull reports None (the only loop exit), every pulled element reaches exactly one call of the
    user's function per iteration, indices are the pulled indices, fold threads its accumulator."""
    out = []
    R, F, ev = env.R, env.F, env.ev
    algos = {}
    for nm, order in (("for_each", (1, 2, 3)), ("enumerate_for_each", (1, 2, 3)), ("fold", None)):
        d = F.trait_default(R.T_CON, nm)
        key = "EACH|%s|delegation" % nm
        if d is None:
            out.append(Ob("EACH", key, "viol", "-", "default method %s not found" % nm))
            continue
        b = F.bodies[d]
        ctx = env.ctx(b, None, None)
        calls = [(bi, t, c) for bi, t, c in b.calls() if c.local and not c.trait]
        if len(calls) != 1:
            out.append(Ob("EACH", key, "viol", b.file_line(), "%s does not delegate to exactly one algorithm" % nm))
            continue
        bi, t, c = calls[0]
        args = [unref(ev.operand(ctx, a)) for a in t["args"]]
        params = sorted(a[1] for a in args if a[0] == "param")
        unchanged = all(a[0] == "param" or a == ("deref", ("param", 1)) for a in args) and \
            len(set(params)) == len(params) and len(args) == b.arg_count and \
            (args[0] in (("param", 1), ("deref", ("param", 1)))) and args[1] == ("param", 2)
        # result returned as is
        r0 = ev.local(ctx, 0)
        out.append(Ob("EACH", key, "ok" if unchanged else "viol", b.file_line(),
                      "passes (self, chunk_size, ..) unchanged to the algorithm" if unchanged else
                      "%s does not pass its arguments unchanged to the algorithm: %s" % (nm, [fmt(a) for a in args]), True))
        algos[nm] = F.bodies.get(c.def_)
        for adt, r in R.impl.items():
            i = F.trait_impls.get((R.T_CON, adt))
            k2 = "EACH|%s|not-overridden|%s" % (nm, r["name"])
            okk = bool(i) and i["items"].get(nm) == "default"
            out.append(Ob("EACH", k2, "ok" if okk else "viol", "-",
                          "%s uses the default %s" % (r["name"], nm) if okk else "%s overrides %s" % (r["name"], nm)))
    m1 = None
    import r_m1
    m1 = r_m1._m1(env)
    bn = m1.buffered_next
    for nm, a in algos.items():
        if a is None:
            out.append(Ob("EACH", "EACH|%s|algorithm" % nm, "viol", "-", "algorithm body of %s not found" % nm))
            continue
        # the algorithms are judged on their direct structure: calls are not inlined; private helper functions an
        # algorithm hands part of its work to (an extracted arm) are analysed as parts of it
        from terms import Evaluator, Ctx
        ev = Evaluator(F, inline=False)
        ctx = Ctx(a, stack=(a.def_,))
        loc = a.file_line()
        wrappers = _wrapper_adts(env)
        parts = _algo_parts(env, ev, a, bn)
        pulls = []
        creations = []
        for (hb, hctx, argmap, site) in parts:
            for bi, t, c in hb.calls():
                if hb.blocks[bi]["cleanup"]:
                    continue
                if c.trait == R.T_CON and c.name in ("next", "next_id_and_value"):
                    pulls.append((bi, t, c, "single", hb, hctx))
                elif c.trait == "std::iter::Iterator" and c.name == "next" and adt_of(c.self_ty or {}) in wrappers:
                    # `for x in iter.values()` / `iter.ids_and_values()`: one single pull per round (WRAP)
                    pulls.append((bi, t, c, "single", hb, hctx))
                elif c.trait == "std::iter::Iterator" and c.name == "fold" and adt_of(c.self_ty or {}) in wrappers \
                        and nm == "fold" and len(t["args"]) == 3:
                    # `iter.values().fold(acc, f)`: std's left fold pulls until None and calls f once per element, in order
                    pulls.append((bi, t, c, "singlefold", hb, hctx))
                elif bn is not None and c.def_ == bn.def_ or (c.local and c.name == "next" and bn is not None
                                                              and c.path == bn.path):
                    pulls.append((bi, t, c, "buffered", hb, hctx))
                elif c.trait == R.T_CON and c.name == "buffered_iter":
                    creations.append((bi, t, c, hb, hctx, argmap))
        k = "EACH|%s|buffered-iter-creation" % nm
        if len(creations) != 1:
            out.append(Ob("EACH", k, "viol", loc, "%s creates %d buffered iterators" % (nm, len(creations))))
        else:
            bi, t, c, hb, hctx, argmap = creations[0]
            cs = _map_params(unref(ev.operand(hctx, t["args"][1])), argmap)
            if cs != ("param", 2):
                # the chunk size may travel through a small value of the crate (`match PullBy::new(n) { ChunksOf(n) => .. }`):
                # judged with the crate's own functions inlined
                cs_in = _map_params(unref(env.ev.operand(env.ctx(hb, None, None), t["args"][1])), argmap)
                if cs_in == ("param", 2):
                    cs = cs_in
            inloop = any(bi in s_ for (h_, s_) in hb.natural_loops()) or any(
                sbb is not None and any(sbb in s_ for (h_, s_) in sb.natural_loops()) for (_b, _c, _m, (sb, sbb)) in parts
                if _b is hb and sb is not None)
            okk = cs == ("param", 2) and not inloop
            out.append(Ob("EACH", k, "ok" if okk else "viol", hb.file_line(t["loc"]),
                          "one buffered iterator with the caller's chunk size, created outside the loop" if okk else
                          "the buffered iterator of %s is created with chunk size %s%s" % (
                              nm, fmt(cs), " inside the loop" if inloop else ""), True))
        # every normal path through the algorithm runs one of its pull loops (or a helper that does)
        k = "EACH|%s|every-path-pulls" % nm
        bad_part = None
        for (hb, hctx, argmap, site) in parts:
            avoid = {bp for (bp, _t, _c, _k, pb, _x) in pulls if pb is hb}
            avoid |= {sbb for (_b, _c, _m, (sb, sbb)) in parts if sb is hb}
            if hb.paths_avoiding(0, set(hb.exits()), avoid):
                bad_part = hb
        if bad_part is not None:
            out.append(Ob("EACH", k, "viol", bad_part.file_line(),
                          "%s has a path to its return that neither pulls from the iterator nor calls a helper that does: the "
                          "call can return without consuming the iterator" % env.fname(bad_part)))
        else:
            out.append(Ob("EACH", k, "ok", loc, "every path pulls until the iterator reports the end", True))
        kinds = sorted("single" if p[3] == "singlefold" else p[3] for p in pulls)
        k = "EACH|%s|pulls" % nm
        if kinds != ["buffered", "single"]:
            out.append(Ob("EACH", k, "viol", loc, "%s does not have exactly one single-pull loop and one buffered loop: %s" % (
                nm, kinds)))
            continue
        out.append(Ob("EACH", k, "ok", loc, "one single-pull arm and one buffered arm"))
        algo_body, algo_ctx = a, ctx
        for (bp, t, c, kind, a, ctx) in pulls:
            if kind == "singlefold":
                key = "EACH|%s|single-loop" % nm
                src = unref(ev.operand(ctx, t["args"][0]))
                over_self = src[0] in ("ret", "call") and str(src[1]).endswith("::values") and src[2] and \
                    _map_params(unref(src[2][0]), None) in (("param", 1), ("deref", ("param", 1)))
                okk = over_self and _is_user_fn_operand(a, t["args"][2])
                out.append(Ob("EACH", key + "|exit", "ok" if okk else "viol", a.file_line(t["loc"]),
                              "std's fold over values() pulls until the iterator reports None" if okk else
                              "the single-pull arm of %s folds over something that is not `self.values()` with the user's function"
                              % nm, True))
                out.append(Ob("EACH", key + "|one-call-per-element", "ok" if okk else "viol", a.file_line(t["loc"]),
                              "std's left fold passes each pulled element to the function exactly once, threading the accumulator"
                              if okk else "cannot establish one call per element", True))
                continue
            key = "EACH|%s|%s-loop" % (nm, kind)
            sccs = [body for (h, body) in a.natural_loops()]
            scc = [s for s in sccs if bp in s]
            if not scc:
                out.append(Ob("EACH", key, "viol", a.file_line(t["loc"]),
                              "the %s pull of %s is not inside a loop: the iterator is not exhausted when the call returns"
                              % (kind, nm)))
                continue
            # outermost SCC containing the pull
            S = max(scc, key=len)
            res_local = t["dest"]["l"]
            # exit edges
            bad_exit = None
            none_exit = False
            for x in S:
                for y in a.succ(x):
                    if y in S:
                        continue
                    tt = a.term(x)
                    okexit = False
                    if tt["k"] == "switch" and tt["discr"]["k"] in ("copy", "move"):
                        dl = tt["discr"]["place"]["l"]
                        for (dbb, si, kd, rv) in a.defs().get(dl, []):
                            if kd == "assign" and rv["k"] == "discr" and rv["place"]["l"] == res_local:
                                # the exit must not be the Some (value 1) target
                                some_t = [bb for v, bb in tt["targets"] if v == 1]
                                if y not in some_t:
                                    okexit = True
                                    none_exit = True
                    if not okexit and not _only_panics(a, y):
                        bad_exit = (x, y)
            if bad_exit or not none_exit:
                out.append(Ob("EACH", key + "|exit", "viol", a.file_line(t["loc"]),
                              "the %s loop of %s can be left by an edge other than `pull returned None` (bb%s->bb%s): the call "
                              "may return before the iterator is exhausted" % (kind, nm, bad_exit[0] if bad_exit else "?",
                                                                                  bad_exit[1] if bad_exit else "?")))
            else:
                out.append(Ob("EACH", key + "|exit", "ok", a.file_line(t["loc"]), "the loop exits only when the pull reports None",
                              True))
            # one invocation per element
            tgt = t["target"]
            some_targets = []
            stt = a.term(tgt) if tgt is not None else None
            if stt and stt["k"] == "switch":
                some_targets = [bb for v, bb in stt["targets"] if v == 1]
            ucalls = [(bi2, t2, c2) for bi2, t2, c2 in a.calls() if bi2 in S and _user_call(c2)]
            fe = [(bi2, t2, c2) for bi2, t2, c2 in a.calls() if bi2 in S and c2.trait == "std::iter::Iterator"
                  and c2.name == "for_each"]
            # (fold only) chunk.values.fold(acc, &mut f): std's left fold calls f once per element, in order
            ifold = [(bi2, t2, c2) for bi2, t2, c2 in a.calls() if bi2 in S and c2.trait == "std::iter::Iterator"
                     and c2.name == "fold" and nm == "fold" and len(t2["args"]) == 3 and _is_user_fn_operand(a, t2["args"][2])]
            k3 = key + "|one-call-per-element"
            payload = ev.payload(ctx, ev.local(ctx, res_local))
            if kind == "single":
                good = False
                if len(ucalls) == 1 and some_targets:
                    bi2, t2, c2 = ucalls[0]
                    mustpass = some_targets[0] == bi2 or not a.paths_avoiding(some_targets[0], {bp}, {bi2})
                    argt = ev.operand(ctx, t2["args"][1])
                    uses = fmt(payload) in fmt(argt) or any(x == payload for x in subterms(argt))
                    good = mustpass and uses
                out.append(Ob("EACH", k3, "ok" if good else "viol", a.file_line(t["loc"]),
                              "each pulled element is passed to the function exactly once" if good else
                              "in the single-pull loop of %s a pulled element does not reach exactly one call of the user's "
                              "function on every path (%d calls in the loop)" % (nm, len(ucalls)), True))
            else:
                # chunk: values -> for_each(&mut f)  or inner loop over values(.enumerate()).next()
                good = False
                why = ""
                vals = ("field", payload, 1, "values", None)
                clo_call = None  # (closure body, its context, the user call in it) for `values(.enumerate()).for_each(|..| f(..))`
                if len(fe) + len(ifold) == 1 and not ucalls and some_targets:
                    bi2, t2, c2 = (fe + ifold)[0]
                    a0 = unref(ev.operand(ctx, t2["args"][0]))
                    mustpass = some_targets[0] == bi2 or not a.paths_avoiding(some_targets[0], {bp}, {bi2})
                    isvals = a0[0] == "field" and a0[2] == 1 and a0[1] == payload
                    enum_vals = a0[0] == "call" and a0[1] == "Iterator::enumerate" and a0[2] and \
                        unref(a0[2][0])[0] == "field" and unref(a0[2][0])[2] == 1 and unref(a0[2][0])[1] == payload
                    direct_f = _is_user_fn_operand(a, t2["args"][-1])
                    good = mustpass and isvals and direct_f
                    why = "chunk.values.for_each(f)" if fe else "chunk.values.fold(acc, f)"
                    if fe and not direct_f and (isvals or enum_vals) and mustpass:
                        # the function is called by a closure of the algorithm: exactly one call on every path of the closure
                        clo = unref(ev.operand(ctx, t2["args"][1]))
                        if clo[0] == "agg" and clo[1].startswith("closure:"):
                            cb_ = F.bodies.get(clo[1][len("closure:"):])
                            if cb_ is not None:
                                cctx_ = Ctx(cb_, params=(clo,), stack=(a.def_, cb_.def_))
                                ucs = [(bj, tj, cj) for bj, tj, cj in cb_.calls() if _user_call(cj) and not cb_.blocks[bj]["cleanup"]]
                                if len(ucs) == 1 and (ucs[0][0] == 0 or not cb_.paths_avoiding(0, set(cb_.exits()), {ucs[0][0]})) \
                                        and not any(ucs[0][0] in lp for (_h, lp) in cb_.natural_loops()):
                                    good = True
                                    clo_call = (cb_, cctx_, ucs[0], enum_vals)
                                    why = "chunk.values%s.for_each(|..| f(..)): one call per element" % (
                                        ".enumerate()" if enum_vals else "")
                elif len(ucalls) == 1 and some_targets:
                    bi2, t2, c2 = ucalls[0]
                    inner = [s for s in sccs if bi2 in s and len(s) < len(S)]
                    if inner:
                        I = min(inner, key=len)
                        inexts = [(bi3, t3, c3) for bi3, t3, c3 in a.calls() if bi3 in I and c3.trait == "std::iter::Iterator"
                                  and c3.name == "next"]
                        if len(inexts) == 1:
                            bi3, t3, c3 = inexts[0]
                            src = fmt(ev.operand(ctx, t3["args"][0]))
                            over_vals = fmt(payload) in src and ".values" in src
                            # inner exits only on None of the inner next
                            in_bad = False
                            rl = t3["dest"]["l"]
                            for x in I:
                                for y in a.succ(x):
                                    if y in I or _only_panics(a, y):
                                        continue
                                    tt = a.term(x)
                                    okx = False
                                    if tt["k"] == "switch" and tt["discr"]["k"] in ("copy", "move"):
                                        dl = tt["discr"]["place"]["l"]
                                        for (dbb, si, kd, rv) in a.defs().get(dl, []):
                                            if kd == "assign" and rv["k"] == "discr" and rv["place"]["l"] == rl:
                                                if y not in [bb for v, bb in tt["targets"] if v == 1]:
                                                    okx = True
                                    if not okx:
                                        in_bad = True
                            st3 = a.term(t3["target"]) if t3["target"] is not None else None
                            some3 = [bb for v, bb in st3["targets"] if v == 1] if st3 and st3["k"] == "switch" else []
                            mustpass = bool(some3) and (some3[0] == bi2 or not a.paths_avoiding(some3[0], {bi3}, {bi2}))
                            # the inner loop itself must be passed on every path of the outer iteration
                            outer_must = some_targets[0] in I or not a.paths_avoiding(some_targets[0], {bp}, I)
                            good = over_vals and not in_bad and mustpass and outer_must
                            why = "inner loop over chunk.values"
                out.append(Ob("EACH", k3, "ok" if good else "viol", a.file_line(t["loc"]),
                              "every element of every pulled chunk is passed to the function exactly once (%s)" % why if good else
                              "in the buffered loop of %s the elements of a pulled chunk do not all reach exactly one call of the "
                              "user's function" % nm, True))
            # indices (enumerate_for_each)
            if nm == "enumerate_for_each":
                k4 = key + "|index"
                good = False
                detail = ""
                if kind != "single" and not ucalls and locals().get("clo_call"):
                    cb_, cctx_, (bj, tj, cj), enum_vals = clo_call
                    tup = unref(ev.operand(cctx_, tj["args"][1]))
                    if enum_vals and tup[0] == "agg" and tup[1] == "tuple" and len(tup[2]) == 2:
                        i0, v0 = unref(tup[2][0]), unref(tup[2][1])
                        el = ("param", 2)  # the (i, value) pair handed to the closure by enumerate().for_each
                        if i0[0] == "bin" and i0[1] == "Add" and v0[0] == "field" and v0[2] == 1 and unref(v0[1]) == el:
                            for bgn, off in ((unref(i0[2]), unref(i0[3])), (unref(i0[3]), unref(i0[2]))):
                                if bgn[0] == "field" and bgn[2] == 0 and unref(bgn[1]) == payload and off[0] == "field" \
                                        and off[2] == 0 and unref(off[1]) == el:
                                    good = True
                                    detail = "f(chunk.begin_idx + i, value) for (i, value) of chunk.values.enumerate()"
                if len(ucalls) == 1:
                    bi2, t2, c2 = ucalls[0]
                    tup = unref(ev.operand(ctx, t2["args"][1]))
                    if tup[0] == "agg" and tup[1] == "tuple" and len(tup[2]) == 2:
                        i0, v0 = unref(tup[2][0]), unref(tup[2][1])
                        if kind == "single":
                            good = i0[0] == "field" and i0[2] == 0 and i0[1] == payload and v0[0] == "field" and v0[2] == 1 \
                                and v0[1] == payload
                            detail = "f(next.idx, next.value)"
                        else:
                            if i0[0] == "bin" and i0[1] == "Add":
                                x, y = unref(i0[2]), unref(i0[3])
                                for bgn, off in ((x, y), (y, x)):
                                    if not (bgn[0] == "field" and bgn[2] == 0 and bgn[1] == payload):
                                        continue
                                    if not (off[0] == "field" and off[2] == 0 and v0[0] == "field" and v0[2] == 1
                                            and off[1] == v0[1]):
                                        continue
                                    E = off[1]
                                    enum_ok = False
                                    for z in subterms(E):
                                        if z[0] == "call" and z[1] == "Iterator::enumerate" and z[2]:
                                            a0 = unref(z[2][0])
                                            if a0[0] == "field" and a0[2] == 1 and a0[1] == payload:
                                                enum_ok = True
                                    if enum_ok and "Iterator::next" in fmt(E):
                                        good = True
                                        detail = "f(chunk.begin_idx + i, value) with (i, value) from chunk.values.enumerate()"
                                if not good:
                                    # an explicit per-chunk offset instead of enumerate(): `let mut k = 0; for v in chunk.values
                                    # { f(begin + k, v); k += 1 }`
                                    okc, why_c = _explicit_offset(a, ctx, ev, payload, bi2, t2, S, i0, v0)
                                    if okc:
                                        good = True
                                        detail = "f(chunk.begin_idx + k, value) with k counting the elements of the chunk visited so far"
                out.append(Ob("EACH", k4, "ok" if good else "viol", a.file_line(t["loc"]),
                              "index passed to the function is the pulled index: " + detail if good else
                              "enumerate_for_each (%s arm) does not pass the pulled index with its own element to the function" % kind,
                              True))
        a, ctx = algo_body, algo_ctx
        if nm == "fold":
            k = "EACH|fold|accumulator"
            def _acc_threaded(a, ctx, min_calls=2):
                good = False
                # _0 is moved from acc; acc defs: neutral param and call_mut results
                d0 = [x for x in a.defs().get(0, []) if not a.blocks[x[0]]["cleanup"]]
                acc = None
                # every `return` hands back the same accumulator local (one tail expression, or early returns of it)
                srcs = set()
                n_sfold = 0
                wr_ = _wrapper_adts(env)
                for x in d0:
                    if x[2] == "assign" and x[3]["k"] == "use" and x[3]["op"]["k"] in ("move", "copy") \
                            and not x[3]["op"]["place"]["p"]:
                        srcs.add(x[3]["op"]["place"]["l"])
                    elif x[2] == "call" and a.callee(x[0]) is not None and not a.callee(x[0]).indirect \
                            and a.callee(x[0]).trait == "std::iter::Iterator" and a.callee(x[0]).name == "fold" \
                            and adt_of(a.callee(x[0]).self_ty or {}) in wr_ and len(x[3]["args"]) == 3 \
                            and unref(ev.operand(ctx, x[3]["args"][1]))[0] == "param" and _is_user_fn_operand(a, x[3]["args"][2]):
                        # `return self.values().fold(neutral, f)`: an arm of its own, threaded by std's fold from `neutral`
                        n_sfold += 1
                    else:
                        srcs.add(None)
                if not srcs and n_sfold >= 1:
                    return min_calls <= 1 or n_sfold >= min_calls   # every return is `self.values().fold(neutral, f)`
                if len(srcs) == 1 and None not in srcs:
                    acc = srcs.pop()
                if acc is not None:
                    defs = a.defs().get(acc, [])
                    init_ok = False
                    calls_ok = True
                    ncalls = 0
                    nfold = 0
                    for (bb, si, kd, pl) in defs:
                        if a.blocks[bb]["cleanup"]:
                            continue
                        if kd == "assign":
                            v = unref(ev.rvalue(ctx, pl))
                            if v[0] == "param":
                                init_ok = True
                                continue
                            # acc = move d  where d is the destination of a call of the user's function
                            src = pl["op"]["place"]["l"] if pl["k"] == "use" and pl["op"]["k"] in ("move", "copy") \
                                and not pl["op"]["place"]["p"] else None
                            cd = [x for x in a.defs().get(src, []) if x[2] == "call"] if src is not None else []
                            if len(cd) != 1:
                                calls_ok = False
                                continue
                            bb, si, kd, pl = cd[0]
                        if kd == "call":
                            c2 = a.callee(bb)
                            if c2 is not None and not c2.indirect and c2.trait == "std::iter::Iterator" and c2.name == "fold" \
                                    and len(pl["args"]) == 3 and _is_user_fn_operand(a, pl["args"][2]):
                                # acc = values.fold(acc, &mut f): the initial value must be the accumulator itself
                                o1 = pl["args"][1]
                                l1 = o1["place"]["l"] if o1["k"] in ("move", "copy") and not o1["place"]["p"] else None
                                srcs = {l1}
                                for (b3, s3, k3_, rv3) in a.defs().get(l1, []) if l1 is not None else []:
                                    if k3_ == "assign" and rv3["k"] == "use" and rv3["op"]["k"] in ("move", "copy") \
                                            and not rv3["op"]["place"]["p"]:
                                        srcs.add(rv3["op"]["place"]["l"])
                                if acc in srcs:
                                    ncalls += 1
                                    nfold += 1
                                else:
                                    calls_ok = False
                                continue
                            if not _user_call(c2):
                                calls_ok = False
                                continue
                            ncalls += 1
                            tupop = pl["args"][1]
                            # the tuple's first element must be the accumulator local itself
                            tl = tupop["place"]["l"] if tupop["k"] in ("move", "copy") else None
                            firstacc = False
                            for (b2, s2, k2_, rv2) in a.defs().get(tl, []):
                                if k2_ == "assign" and rv2["k"] == "aggregate" and rv2["ops"]:
                                    o0 = rv2["ops"][0]
                                    if o0["k"] in ("move", "copy"):
                                        l0 = o0["place"]["l"]
                                        # follow one copy
                                        if l0 == acc:
                                            firstacc = True
                                        else:
                                            for (b3, s3, k3_, rv3) in a.defs().get(l0, []):
                                                if k3_ == "assign" and rv3["k"] == "use" and rv3["op"]["k"] in ("move", "copy") \
                                                        and rv3["op"]["place"]["l"] == acc:
                                                    firstacc = True
                            if not firstacc:
                                calls_ok = False
                    ucount = len([1 for bi2, t2, c2 in a.calls() if _user_call(c2) and not a.blocks[bi2]["cleanup"]])
                    good = init_ok and calls_ok and ncalls == ucount + nfold and ncalls + n_sfold >= min_calls
                return good

            # the algorithm may hand each arm to a private helper and return what the helper returns: each helper then threads
            # its own accumulator from the `neutral` it is given
            d0_ = [x for x in a.defs().get(0, []) if not a.blocks[x[0]]["cleanup"]]
            helper_defs = []
            for x in d0_:
                hp = [(hb, hctx) for (hb, hctx, _am, (sb, sbb)) in parts if sb is a and sbb == x[0]] if x[2] == "call" else []
                helper_defs.append(hp[0] if hp else None)
            if d0_ and all(h is not None for h in helper_defs):
                good = len(helper_defs) >= 2 and all(_acc_threaded(hb, hctx, 1) for (hb, hctx) in helper_defs)
            elif d0_ and any(h is not None for h in helper_defs):
                # one arm in a helper (`return fold_one_by_one(iter, neutral, f)`), the other written out: the helper threads its
                # own accumulator from the `neutral` it is given, the rest of the algorithm threads the other
                helper_blocks = {x[0] for x, h in zip(d0_, helper_defs) if h is not None}
                neutral_ok = True
                for x, h in zip(d0_, helper_defs):
                    if h is None:
                        continue
                    am_ = [am for (hb2, _c, am, (sb, sbb)) in parts if sb is a and sbb == x[0]]
                    neutral_ok = neutral_ok and bool(am_) and any(v == ("param", 4) or v[0] == "param" for v in am_[0].values())
                saved = a.defs
                try:
                    # the inline arm is judged on the remaining definitions of the return value
                    a.defs = (lambda orig=saved: {k_: ([d for d in v_ if not (k_ == 0 and d[0] in helper_blocks)])
                                                 for k_, v_ in orig().items()})
                    inline_ok = _acc_threaded(a, ctx, 1)
                finally:
                    a.defs = saved
                good = neutral_ok and inline_ok and all(_acc_threaded(h[0], h[1], 1) for h in helper_defs if h is not None)
            else:
                good = _acc_threaded(a, ctx)
            out.append(Ob("EACH", k, "ok" if good else "viol", loc,
                          "result = f(result, value) threads one accumulator from `neutral` to the returned value" if good else
                          "fold does not thread a single accumulator (initialised with `neutral`, updated by every call of the "
                          "function, returned at the end)", True))
    return out


def _explicit_offset(a, ctx, ev, payload, call_bb, call_t, S, i0, v0):
    """`begin + k` where begin is the begin index of the pulled chunk and k a local that is set to 0 once per chunk (inside
    the outer loop S, outside the inner loop over chunk.values), incremented by one exactly once per element on every
    path of the inner loop, *after* the call of the function, and v the element the inner `next()` returned"""
    x, y = unref(i0[2]), unref(i0[3])
    for bgn, off in ((x, y), (y, x)):
        if not (bgn[0] == "field" and bgn[2] == 0 and bgn[1] == payload):
            continue
        if not (off[0] == "phi" and ("int", 0) in off[1] and any(z[0] == "bin" and z[1] == "Add" and z[3] == ("int", 1)
                                                                   for z in off[1])):
            continue
        inner = [lb for (_h, lb) in a.natural_loops() if call_bb in lb and len(lb) < len(S)]
        if not inner:
            return False, "no inner loop"
        I = min(inner, key=len)
        nexts = [(bj, tj) for bj, tj, cj in a.calls() if bj in I and cj.trait == "std::iter::Iterator" and cj.name == "next"]
        if len(nexts) != 1:
            return False, "inner loop polls more than one iterator"
        nb_, nt_ = nexts[0]
        src = fmt(ev.operand(ctx, nt_["args"][0]))
        if not (fmt(payload) in src and ".values" in src):
            return False, "inner loop is not over chunk.values"
        if unref(v0) != unref(ev.payload(ctx, ev.local(ctx, nt_["dest"]["l"]))):
            return False, "the value passed is not the element just pulled"
        # the counter local: the operand of the addition that forms the index
        tup_l = call_t["args"][1]["place"]["l"] if call_t["args"][1]["k"] in ("move", "copy") else None
        cands = []
        for bj, blk in enumerate(a.blocks):
            if blk["cleanup"]:
                continue
            for st in blk["stmts"]:
                if st["k"] == "assign" and st["rv"]["k"] == "binop" and st["rv"]["op"].startswith("Add") \
                        and st["rv"]["b"].get("k") == "const" and st["rv"]["b"].get("int") == 1 \
                        and st["rv"]["a"]["k"] in ("copy", "move") and not st["rv"]["a"]["place"]["p"] \
                        and unref(ev.local(ctx, st["rv"]["a"]["place"]["l"])) == off:
                    cands.append((bj, st))
        if len(cands) != 1 or cands[0][0] not in I:
            return False, "the offset is not incremented exactly once in the inner loop"
        ib, ist = cands[0]
        c_loc, tmp = ist["rv"]["a"]["place"]["l"], ist["place"]["l"]
        zero_defs, other = [], 0
        for bj, blk in enumerate(a.blocks):
            if blk["cleanup"]:
                continue
            for st in blk["stmts"]:
                if st["k"] == "assign" and st["place"]["l"] == c_loc and not st["place"]["p"]:
                    rv = st["rv"]
                    if rv["k"] == "use" and rv["op"].get("k") == "const" and rv["op"].get("int") == 0:
                        zero_defs.append(bj)
                    elif rv["k"] == "use" and rv["op"].get("place", {}).get("l") == tmp and bj in I:
                        pass
                    else:
                        other += 1
        if other or len(zero_defs) != 1 or zero_defs[0] not in S or zero_defs[0] in I:
            return False, "the offset is not reset to 0 once per chunk"
        st3 = a.term(nt_["target"]) if nt_.get("target") is not None else None
        some3 = [bb for v, bb in st3["targets"] if v == 1] if st3 and st3["k"] == "switch" else []
        if not some3 or (some3[0] != ib and a.paths_avoiding(some3[0], {nb_}, {ib})):
            return False, "an element can be passed over without counting it"
        tgt_i = a.term(ib).get("target") if a.term(ib)["k"] in ("assert", "call", "goto") else None
        # the increment comes after the call within a round: from the increment the call is reached only through the next poll
        start = ib
        if call_bb == ib or a.paths_avoiding(start, {call_bb}, {nb_}):
            return False, "the offset is incremented before the function is called"
        if not a.dominates(zero_defs[0], nb_):
            return False, "the reset does not precede the inner loop"
        return True, ""
    return False, "index is not begin + offset"


def _is_user_fn_operand(a, op):
    """operand is (a reference to) a value whose type is a type parameter of the algorithm: the user's function"""
    if op["k"] not in ("move", "copy"):
        return False
    ty = a.locals[op["place"]["l"]]["ty"]
    for e in op["place"]["p"]:
        return False
    while ty is not None and ty.get("k") in ("ref", "ptr"):
        ty = ty.get("inner")
    return ty is not None and ty.get("k") == "param"


def _map_params(t, argmap):
    """rewrite the parameters of a helper into terms over the algorithm's parameters"""
    from r_m1 import rewrite
    if argmap is None:
        return t
    return rewrite(t, lambda x: argmap.get(x[1], ("unknown", "helper-param")) if x[0] == "param" else None)


def _algo_parts(env, ev, a, bn, depth=0, argmap=None, site=(None, None)):
    """[(body, ctx, argmap, (caller body, call block))]: the algorithm and the crate-local free helper functions it calls
    that pull from the iterator; argmap (None for the algorithm itself) maps a helper's parameter index to a term over
    the algorithm's parameters"""
    from terms import Ctx
    F, R = env.F, env.R
    ctx = Ctx(a, stack=(a.def_,))
    out = [(a, ctx, argmap, site)]
    if depth >= 2:
        return out
    for bi, t, c in a.calls():
        if a.blocks[bi]["cleanup"] or not c.local or c.trait or c.def_ not in F.bodies:
            continue
        hb = F.bodies[c.def_]
        if hb.is_closure or F.impl_self_adt(hb) is not None or (bn is not None and hb.def_ == bn.def_):
            continue
        wr = _wrapper_adts(env)
        touches = any((c2.trait == R.T_CON and c2.name in ("next", "next_id_and_value", "buffered_iter"))
                      or (bn is not None and c2.def_ == bn.def_)
                      or (c2.trait == "std::iter::Iterator" and c2.name in ("next", "fold") and adt_of(c2.self_ty or {}) in wr)
                      for _, _, c2 in hb.calls())
        if not touches:
            continue
        am = {}
        for i, ao in enumerate(t["args"]):
            am[i + 1] = _map_params(unref(ev.operand(ctx, ao)), argmap)
        out.extend(_algo_parts(env, ev, hb, bn, depth + 1, am, (a, bi)))
    return out


def _only_panics(b, s):
    seen = set()
    st = [s]
    while st:
        x = st.pop()
        if x in seen:
            continue
        seen.add(x)
        t = b.term(x)
        if t["k"] == "return":
            return False
        st.extend(b.succ(x))
    return True


# ---------------------------------------------------------------------------------------------------
def rule_siblings(env, shared):
    """SIB: implementations of one interface agree. The reservation helper and try_get_len of the known-size implementors
    have the same shape once LEN and the counter place are abstracted; the ConcurrentIter methods that only dispatch
    (next_id_and_value, next_chunk, buffered_iter, skip_to_end) have the same shape in all non-adaptor implementors."""
    from terms import Evaluator, Ctx
    import r_m1
    out = []
    R, F = env.R, env.F
    m = r_m1._m1(env)
    ev = env.ev
    ev0 = Evaluator(F, inline=False)

    def norm(t, adt):
        r = R.impl[adt]
        lt = r.get("len_term")
        Lc = m.canon(lt) if lt is not None else None

        def f(x):
            if Lc is not None and m.canon(x) == Lc:
                return ("const", "LEN")
            if x[0] == "field" and len(x) > 4 and x[4] == adt and x[2] == r.get("pos"):
                return ("const", "POS")
            if x[0] in ("atomic", "ret") and len(x) > 4:
                return x[:4] + ((),)
            if x[0] == "agg" and x[1].startswith("closure:"):
                return ("agg", "closure", x[2])
            if x[0] == "fnref":
                return ("fnref", x[1].split("<")[0].replace(adt, "X"))
            return None
        def g0(x):
            # `c.then_some(v)` is None or Some(v), like the match it replaces (the condition is judged by ENDGUARD / COMPLETE)
            if x[0] == "call" and x[1] == "bool::then_some" and len(x[2]) == 2:
                return ("phi", (("agg", "std::option::Option::None", ()), ("agg", "std::option::Option::Some", (x[2][1],))))
            # `if c { Some(a) } else { Some(b) }` is Some(if c { a } else { b })
            if x[0] == "phi" and len(x[1]) >= 2 and all(y[0] == "agg" and y[1].endswith("Option::Some") and len(y[2]) == 1
                                                         for y in x[1]):
                return ("agg", x[1][0][1], (("phi", tuple(y[2][0] for y in x[1])),))
            # `Some(v).filter(c)` is None or Some(v) as well
            if x[0] == "call" and x[1] == "Option::filter" and len(x[2]) == 2:
                rc = x[2][0]
                while rc[0] == "ref":
                    rc = rc[1]
                if rc[0] == "agg" and rc[1].endswith("Option::Some") and rc[2]:
                    return ("phi", (("agg", "std::option::Option::None", ()), rc))
            # the rest of the source as a reservation amount: `L - c` under the guard c < L is saturating_sub(L, c)
            if x[0] == "atomic" and x[1] == "fetch_add" and len(x) > 3:
                def ss(y):
                    if y[0] == "bin" and y[1] == "Sub":
                        return ("call", "saturating_sub", (y[2], y[3]))
                    return None
                na = tuple(r_m1.rewrite(a_, ss) if isinstance(a_, tuple) and a_ and isinstance(a_[0], str) else a_ for a_ in x[3])
                if na != x[3]:
                    return x[:3] + (na,) + x[4:]
            # `0 | L - c` is the two-armed spelling of saturating_sub(L, c) (the guard of the arms is judged by LEN / OVF)
            if x[0] == "phi" and len(x[1]) == 2 and ("int", 0) in x[1]:
                o = [y for y in x[1] if y != ("int", 0)]
                if len(o) == 1 and o[0][0] == "bin" and o[0][1] == "Sub":
                    return ("call", "saturating_sub", (o[0][2], o[0][3]))
            return None
        def g(x):
            # the order of the alternatives of a phi is an artefact of the control-flow layout (if/else vs match)
            if x[0] == "phi":
                from terms import mk_phi
                flat = mk_phi(list(x[1]))
                if flat[0] != "phi":
                    return flat
                return ("phi", tuple(sorted(flat[1], key=lambda y: fmt(y))))
            return None
        return fmt(r_m1.rewrite(r_m1.rewrite(r_m1.rewrite(r_m1.rewrite(m.canon(t), f), g0), g0), g)).replace(adt, "X").replace(r["name"], "X")

    groups = {}
    known = [a for a, r in R.impl.items() if r["kind"] == "known"]
    for adt in known:
        for tr, nm in ((R.T_ATOMIC, "progress_and_get_begin_idx"), (R.T_CON, "try_get_len")):
            b = R.method_body(tr, nm, adt)
            if b is None:
                continue
            t = ev.local(env.ctx(b, adt, env.world_of(adt)), 0)
            groups.setdefault(nm, {})[R.impl[adt]["name"]] = (norm(t, adt), b)
    nonad = [a for a, r in R.impl.items() if r["kind"] != "adaptor"]
    for adt in nonad:
        for nm in ("next_id_and_value", "next_chunk", "skip_to_end"):
            b = R.method_body(R.T_CON, nm, adt)
            if b is None:
                continue
            t = ev0.local(Ctx(b, self_adt=adt, stack=(b.def_,)), 0)
            s = fmt(t)
            for a2 in nonad:
                s = s.replace(a2, "X")
            s = s.split("<")[0] + "(" + s.split("(", 1)[1] if "(" in s else s
            groups.setdefault(nm, {})[R.impl[adt]["name"]] = (s, b)
    for nm, d in sorted(groups.items()):
        shapes = {}
        for who, (s, b) in d.items():
            shapes.setdefault(s, []).append(who)
        k = "SIB|%s" % nm
        if len(shapes) == 1:
            out.append(Ob("SIB", k, "ok", "-", "%d implementations of %s have the same shape" % (len(d), nm), True))
        else:
            # the minority deviates
            major = max(shapes.items(), key=lambda kv: len(kv[1]))
            for s, whos in shapes.items():
                if s == major[0]:
                    continue
                for who in whos:
                    b = d[who][1]
                    out.append(Ob("SIB", k + "|" + who, "viol", b.file_line(),
                                  "%s of %s deviates from its siblings (%s): %s   vs   %s" % (
                                      nm, who, ", ".join(major[1]), s[:150], major[0][:150])))
    return out


def rule_cfgdiff(env, shared):
    """CFGDIFF (thorough): apart from overflow asserts, debug_assert! blocks and compiler-inserted pointer checks, every
    function has the same calls in all build configurations (nothing is conditional on cfg!(debug_assertions))."""
    out = []
    envs = shared.get("envs", {})
    if len(envs) < 2:
        return out

    def sig(b):
        calls = []
        for bi, blk in enumerate(b.blocks):
            if blk["cleanup"]:
                continue  # unwind paths exist only where something can panic (e.g. overflow asserts)
            t = blk["term"]
            mac = t["loc"].get("outer_macro") or ""
            if mac.endswith("debug_assert") or mac.endswith("debug_assert_eq") or mac.endswith("debug_assert_ne"):
                continue
            if t["k"] == "call":
                c = b.callee(bi)
                calls.append(c.key if not c.indirect else "<indirect>")
            elif t["k"] == "drop":
                calls.append("drop:" + t["ty"]["s"][:40])
        return sorted(calls)
    names = sorted(envs)
    base = envs[names[0]]
    for d, b in base.F.bodies.items():
        if base.F.is_test_item(b) or b.kind == "Promoted":
            continue
        s0 = sig(b)
        k = "CFGDIFF|%s" % base.fname(b)
        bad = None
        for n2 in names[1:]:
            b2 = envs[n2].F.bodies.get(d)
            if b2 is None or b2.path != b.path:
                # def ids may shift between configurations: match by path
                cand = [x for x in envs[n2].F.bodies.values() if x.path == b.path]
                b2 = cand[0] if cand else None
            if b2 is None:
                bad = "missing in configuration %s" % n2
                break
            s2 = sig(b2)
            if s2 != s0:
                diff = sorted(set(s0) ^ set(s2))[:4]
                bad = "calls differ between %s and %s: %s" % (names[0], n2, diff)
                break
        if bad:
            out.append(Ob("CFGDIFF", k, "viol", b.file_line(),
                          "%s behaves differently depending on the build configuration (%s): debug and optimized builds "
                          "diverge" % (base.fname(b), bad)))
        else:
            out.append(Ob("CFGDIFF", k, "ok", b.file_line(), "same calls in all %d configurations" % len(names)))
    return out


rule_cfgdiff.once = True


# ---------------------------------------------------------------------------------------------------
def option_map_payload(ev, F, b, is_source):
    """If body b returns `src()` itself or an Option that is None exactly when the single inner call `src()` (a `ret` term
    accepted by is_source) returned None and Some(p) otherwise — written with Option::map, match, if-let or `?` — returns
    (rt, p, cands): the inner call, the payload expression (None for the unchanged result) and the terms that stand for
    the inner payload in it. Otherwise None."""
    from terms import Ctx
    from guards import local_cases
    ctx = Ctx(b, stack=(b.def_,))
    t = unref(ev.local(ctx, 0))
    rets = [x for x in subterms(t) if x[0] == "ret" and is_source(x)]
    for (K, fs, v) in (local_cases(ev, ctx, 0, True) or []):
        for f in fs:
            if f[0] == "is_some" and f[1][0] == "ret" and is_source(f[1]):
                rets.append(f[1])
    rets = list(dict.fromkeys(rets))
    if len(rets) != 1:
        return None
    rt = rets[0]
    cands = [("param", 2), ("payload", rt), unref(ev.payload(ctx, rt))]
    if t == rt:
        return (rt, None, cands)
    if t[0] == "call" and t[1] == "Option::map" and len(t[2]) == 2 and unref(t[2][0]) == rt:
        clo = unref(t[2][1])
        if clo[0] == "agg" and clo[1].startswith("closure:"):
            cb = F.bodies.get(clo[1][len("closure:"):])
            if cb is not None:
                return (rt, unref(ev.local(Ctx(cb, stack=(cb.def_,)), 0)), cands)
        return None
    if not b.locals[0]["ty"]["s"].replace("core::", "std::").startswith("std::option::Option<"):
        return None
    cs = [c for c in (local_cases(ev, ctx, 0, True) or []) if c[0] in ("Some", "None")]
    ps = set()
    has_none = False
    for (K, fs, v) in cs:
        if ("is_some", rt, K == "Some") not in fs:
            return None
        if K == "None":
            has_none = True
        elif v is not None and v[0] == "agg" and v[2]:
            ps.add(unref(v[2][0]))
        else:
            return None
    if has_none and len(ps) == 1:
        return (rt, ps.pop(), cands)
    return None


def rule_wrap(env, shared):
    """WRAP: the thin layers above the pulls neither lose nor relabel anything: the default `next()` is
    `next_id_and_value().map(|x| x.value)`; the `values()` / `ids_and_values()` iterators call exactly that / map the same Next
    to (idx, value) in this order; `values()`/`ids_and_values()` wrap `self`; constructors store the very collection they are
    given and start the position counter at zero."""
    from terms import Evaluator, Ctx
    out = []
    R, F = env.R, env.F
    ev0 = Evaluator(F, inline=False)

    def direct(b):
        return unref(ev0.local(Ctx(b, stack=(b.def_,)), 0)), Ctx(b, stack=(b.def_,))

    # default next()
    d = F.trait_default(R.T_CON, "next")
    k = "WRAP|ConcurrentIter::next"
    if d is None:
        out.append(Ob("WRAP", k, "viol", "-", "default next() not found"))
    else:
        b = F.bodies[d]
        t, ctx = direct(b)
        good = False
        om = option_map_payload(ev0, F, b, lambda x: x[1] == R.T_CON + "::next_id_and_value"
                                and unref(x[2][0]) in (("param", 1), ("deref", ("param", 1))))
        if om is not None and om[1] is not None and om[1][0] == "ret" and ev0.fn_by_path(str(om[1][1])) is not None:
            # the payload goes through a small accessor of the crate (`next.into_value()`): judged with it inlined
            hb_ = ev0.fn_by_path(str(om[1][1]))
            from terms import Ctx as _Ctx3
            if hb_.arg_count == len(om[1][2]):
                om = (om[0], unref(ev0.local(_Ctx3(hb_, params=tuple(om[1][2]), stack=(b.def_, hb_.def_), depth=1), 0)), om[2])
        if om is not None and om[1] is not None:
            rt, pay, cands = om
            good = pay[0] == "field" and pay[2] == 1 and unref(pay[1]) in cands
        out.append(Ob("WRAP", k, "ok" if good else "viol", b.file_line(),
                      "next() = next_id_and_value().map(|x| x.value)" if good else
                      "the default next() is not next_id_and_value().map(|x| x.value): %s" % fmt(t)[:120], True))
        for adt, r in R.impl.items():
            i = F.trait_impls.get((R.T_CON, adt))
            okk = bool(i) and i["items"].get("next") == "default"
            out.append(Ob("WRAP", k + "|not-overridden|" + r["name"], "ok" if okk else "viol", "-",
                          "%s uses the default next()" % r["name"] if okk else "%s overrides next()" % r["name"]))
    # wrapper iterators: local ADTs implementing std Iterator whose only field is a reference to a ConcurrentIter
    n = 0
    for i in F.impls_of_trait.get("std::iter::Iterator", []):
        adt = adt_of(i["self_ty"])
        a = F.adts.get(adt) if adt else None
        if a is None:
            continue
        fs = a["variants"][0]["fields"]
        if len(fs) != 1 or fs[0]["ty"].get("k") != "ref" or not any(
                (R.T_CON.split("::")[-1]) in p for p in a.get("predicates", [])):
            continue
        m = i["items"].get("next")
        if not isinstance(m, dict) or m["def"] not in F.bodies:
            continue
        n += 1
        b = F.bodies[m["def"]]
        t, ctx = direct(b)
        k = "WRAP|%s::next" % a["name"]
        good = False
        what = ""

        def is_inner(x):
            x = unref(x)
            while x[0] == "deref":
                x = unref(x[1])
            return x[0] == "field" and x[2] == 0 and unref(x[1]) in (("param", 1), ("deref", ("param", 1)))
        om = option_map_payload(ev0, F, b, lambda x: x[1] in (R.T_CON + "::next", R.T_CON + "::next_id_and_value")
                                and is_inner(x[2][0]))
        if om is None:
            # the pull may sit in a private method of the wrapper (`fn pull(&self) -> Option<Next<..>>`): judged with the
            # crate's own functions inlined (the call on the wrapped iterator's type parameter stays what it is)
            om = option_map_payload(env.ev, F, b, lambda x: x[1] in (R.T_CON + "::next", R.T_CON + "::next_id_and_value")
                                    and is_inner(x[2][0]))
        if om is not None and om[1] is not None and om[1][0] == "ret" and ev0.fn_by_path(str(om[1][1])) is not None:
            # the payload goes through a small function of the crate (`next.into_id_and_value()`): judged with that one
            # function inlined
            hb_ = ev0.fn_by_path(str(om[1][1]))
            from terms import Ctx as _Ctx2
            if hb_.arg_count == len(om[1][2]):
                inl = unref(ev0.local(_Ctx2(hb_, params=tuple(om[1][2]), stack=(b.def_, hb_.def_), depth=1), 0))
                om = (om[0], inl, om[2])
        if om is not None:
            rt, pay, cands = om
            if pay is None and rt[1] == R.T_CON + "::next":
                good, what = True, "forwards to next()"
            elif pay is not None and rt[1] == R.T_CON + "::next_id_and_value":
                if pay[0] == "agg" and pay[1] == "tuple" and len(pay[2]) == 2:
                    x0, x1 = unref(pay[2][0]), unref(pay[2][1])
                    if x0[0] == "field" and x0[2] == 0 and unref(x0[1]) in cands and x1[0] == "field" and x1[2] == 1 \
                            and unref(x1[1]) in cands:
                        good, what = True, "maps the same Next to (idx, value)"
                elif pay[0] == "field" and pay[2] == 1 and unref(pay[1]) in cands:
                    good, what = True, "maps the Next to its value"
        out.append(Ob("WRAP", k, "ok" if good else "viol", b.file_line(),
                      what if good else "%s::next does not hand on exactly what the pull returned: %s" % (a["name"], fmt(t)[:140]),
                      True))
    if n < 2:
        out.append(Ob("WRAP", "WRAP|wrappers", "viol", "-", "only %d wrapper iterators found (anchor lost)" % n))
    # values() / ids_and_values() wrap self
    for nm in ("values", "ids_and_values"):
        d = F.trait_default(R.T_CON, nm)
        k = "WRAP|ConcurrentIter::%s" % nm
        if d is None:
            out.append(Ob("WRAP", k, "viol", "-", "default %s() not found" % nm))
            continue
        b = F.bodies[d]
        t = unref(env.ev.local(env.ctx(b, None, None), 0))
        good = t[0] == "agg" and len(t[2]) == 1 and unref(t[2][0]) in (("param", 1), ("deref", ("param", 1)))
        if not good and t[0] == "call" and t[1] == "conv" and unref(t[2][0]) in (("param", 1), ("deref", ("param", 1))):
            # `self.into()`: judged on the From impl of the returned wrapper type
            rty = adt_of((b.info or {}).get("output") or {})
            for i in F.impls_of_trait.get("std::convert::From", []):
                if adt_of(i["self_ty"]) == rty:
                    mm = i["items"].get("from")
                    if isinstance(mm, dict) and mm["def"] in F.bodies:
                        fb = F.bodies[mm["def"]]
                        ft = unref(env.ev.local(env.ctx(fb, rty, None), 0))
                        good = ft[0] == "agg" and len(ft[2]) == 1 and unref(ft[2][0]) == ("param", 1)
        out.append(Ob("WRAP", k, "ok" if good else "viol", b.file_line(),
                      "%s() wraps self" % nm if good else "%s() does not wrap the iterator itself: %s" % (nm, fmt(t)[:100]), True))
    # constructors: the stored collection is the argument, the counter starts at 0
    for adt, r in R.impl.items():
        if r["kind"] == "adaptor":
            continue
        ctors = [b for b in F.non_test_bodies() if F.impl_self_adt(b) == adt and not b.is_closure and b.name == "new"
                 and (b.info or {}).get("container") == "inherent"]
        k = "WRAP|%s::new" % r["name"]
        if not ctors:
            out.append(Ob("WRAP", k, "viol", "-", "constructor of %s not found" % r["name"]))
            continue
        b = ctors[0]
        t = unref(env.ev.local(env.ctx(b, adt, None), 0))
        good = False
        why = fmt(t)[:140]
        if t[0] == "agg" and t[1].startswith(adt):
            pos = r.get("pos")
            stores = [i for i in range(len(t[2])) if i != pos and ("param", 1) in list(subterms(t[2][i]))]
            # every occurrence of the argument in the stored field is behind identity-like wrappers only
            plain = True
            from r_m1 import rewrite as _rw
            for i in stores:
                # metadata computed from the argument (its length, its size hint) may be stored in any form: it is not the
                # collection; what is judged here is that the collection itself is stored as it is
                ft = _rw(t[2][i], lambda x: ("const", "metadata") if ((x[0] == "ret" and "size_hint" in x[1]) or
                                                                     (x[0] == "call" and x[1] == "len")) else None)
                for x in subterms(ft):
                    if x[0] in ("ret",) or (x[0] == "call" and x[1] not in ("conv", "ManuallyDrop::new", "UnsafeCell::new", "len",
                                                                              "Iterator::size_hint")):
                        if ("param", 1) in list(subterms(x)) and not (x[0] == "ret" and "size_hint" in x[1]):
                            plain = False
            zero = pos is not None and any(x == ("int", 0) for x in subterms(t[2][pos])) and not any(
                x[0] == "int" and x[1] != 0 for x in subterms(t[2][pos]))
            ctr_ok = zero
            if pos is not None and not zero:
                # AtomicCounter::new() evaluated through the counter type's constructor
                ctr_ok = "conv(0)" in fmt(t[2][pos]) or fmt(t[2][pos]).endswith("{conv(0)}")
            good = bool(stores) and plain and ctr_ok
            why = "stores=%s plain=%s counter starts at 0=%s" % (stores, plain, ctr_ok)
        out.append(Ob("WRAP", k, "ok" if good else "viol", b.file_line(),
                      "stores the given collection unchanged, counter starts at 0" if good else
                      "the constructor of %s does not store its argument unchanged with the counter at 0 (%s)" % (r["name"], why),
                      True))
    return out
