"""TYPE (trait-solver audit of unsafe impl Send/Sync), SURFACE (safe public access to raw element access), WIT (compile
witnesses with compiling twins), IND (non-consuming iterators are plain borrows with an owned counter)."""
import json
import os
import re
import shutil
import subprocess

from env import Ob
from guards import unref
from terms import fmt, subterms
from facts import norm_std, adt_of


def rule_type(env, shared):
    """TYPE: for every `unsafe impl Send/Sync for ADT`, with P the impl's predicates:
    Send => every field (looking through UnsafeCell / ManuallyDrop / raw pointers) is Send under P;
    Sync => every plain field is Sync under P, the content of every UnsafeCell is Send under P (it is handed from thread to
            thread), what a raw pointer points to is Sync under P.  Decided by the compiler's trait solver."""
    out = []
    F = env.F
    n = 0
    for i in F.impls:
        if not i.get("auto") or not i.get("unsafe"):
            continue
        n += 1
        adt = adt_of(i["self_ty"]) or i["self_ty"]["s"]
        nm = adt.split("::")[-1]
        for f in i.get("audit", []):
            cell = any("UnsafeCell" in p for p in f["peeled"])
            raw = "rawptr" in f["peeled"]
            k = "TYPE|%s|%s|%s" % (nm, i["auto"], f["field"])
            loc = "%s:%d" % (i["loc"]["file"], i["loc"]["line"])
            if i["auto"] == "Send":
                ok = f["inner_send"] if f["peeled"] else f["field_send"]
                need = "%s: Send" % f["inner"]
            else:
                if cell:
                    ok = f["inner_send"]
                    need = "%s: Send (the content of the cell is used by one thread after the other)" % f["inner"]
                elif raw:
                    ok = f["inner_sync"]
                    need = "%s: Sync" % f["inner"]
                else:
                    ok = f["inner_sync"] if f["peeled"] else f["field_sync"]
                    need = "%s: Sync" % (f["inner"] if f["peeled"] else f["ty"])
            if ok:
                out.append(Ob("TYPE", k, "ok", loc, "field `%s: %s` satisfies %s under the impl's bounds" % (
                    f["field"], f["ty"], need), True))
            else:
                out.append(Ob("TYPE", k, "viol", loc,
                              "`unsafe impl %s for %s` does not require %s: field `%s: %s` may hold a value that must not "
                              "cross threads, yet safe code can share/move the iterator across threads (bounds of the impl: %s)"
                              % (i["auto"], nm, need.split(" (")[0], f["field"], f["ty"],
                                 "; ".join(p for p in i["predicates"] if "Sized" not in p)[:160])))
    if n < 10:
        out.append(Ob("TYPE", "TYPE|floor", "viol", "-", "only %d unsafe auto-trait impls found (anchor lost)" % n))
    # supertraits and item bounds of the public traits
    R = env.R
    for tr, wants in ((R.T_CON, ("Send", "Sync")), (R.T_ATOMIC, ("Send", "Sync"))):
        t = F.traits.get(tr)
        if not t:
            continue
        sp = " ".join(t["super_predicates"]) + " " + " ".join(t["predicates"])
        for wname in wants:
            k = "TYPE|%s|supertrait|%s" % (t["name"], wname)
            ok = re.search(r"Self: std::marker::%s\b" % wname, norm_std(sp)) is not None
            out.append(Ob("TYPE", k, "ok" if ok else "viol", "%s:%d" % (t["loc"]["file"], t["loc"]["line"]),
                          "%s: %s" % (t["name"], wname) if ok else
                          "trait %s lost its `%s` supertrait: generic code sharing `impl %s` across threads no longer has "
                          "the guarantee" % (t["name"], wname, t["name"])))
        for it in t["items"]:
            if it["kind"].startswith("Type") and it["name"] == "Item":
                b = " ".join(it.get("bounds", []))
                for wname in ("Send", "Sync"):
                    k = "TYPE|%s|Item|%s" % (t["name"], wname)
                    ok = ("std::marker::%s" % wname) in norm_std(b)
                    out.append(Ob("TYPE", k, "ok" if ok else "viol", "%s:%d" % (t["loc"]["file"], t["loc"]["line"]),
                                  "Item: %s" % wname if ok else "associated type Item of %s lost its `%s` bound" % (
                                      t["name"], wname)))
        if tr == R.T_ATOMIC:
            for wname in ("Send", "Sync"):
                k = "TYPE|%s|T|%s" % (t["name"], wname)
                ok = ("T: std::marker::%s" % wname) in norm_std(" ".join(t["predicates"]))
                out.append(Ob("TYPE", k, "ok" if ok else "viol", "%s:%d" % (t["loc"]["file"], t["loc"]["line"]),
                              "T: %s" % wname if ok else "element type T of %s lost its `%s` bound" % (t["name"], wname)))
    return out


def _callable_by_clients(F, info):
    """can safe client code call this function? inherent/free functions must be exported (nameable); a trait method is
    callable as soon as the trait is nameable and the implementing type is reachable (as a value or through an associated
    type such as `<X as ConcurrentIter>::BufferedIter`)"""
    tr = info.get("trait")
    if tr and info.get("container") in ("trait_impl", "trait"):
        t = F.traits.get(norm_std(tr))
        trait_nameable = True if t is None else bool(t.get("exported"))
        return bool(info.get("reachable")) and trait_nameable
    return bool(info.get("exported"))


def rule_surface(env, shared):
    """SURFACE: no *safe* function with public effective visibility lets the caller choose the index / ticket of a raw
    element access (move-out, view over storage, access to the wrapped iterator's cell), and no safe public path hands out
    a mutator of the position counter of an iterator over unsafe storage."""
    out = []
    R, F, ev = env.R, env.F, env.ev
    n = 0
    for d, info in F.fns.items():
        # callable from client code: exported (nameable) itself — for trait methods the trait must be nameable
        if info.get("unsafe") or d not in F.bodies or not _callable_by_clients(F, info):
            continue
        b = F.bodies[d]
        if F.is_test_item(b):
            continue
        sa = F.impl_self_adt(b)
        owner = sa
        if sa not in R.impl:
            # chunk pullers act on behalf of their implementor
            owners = [a for a, rr in R.impl.items() if rr.get("puller") == sa and rr["kind"] != "adaptor"]
            if not owners:
                continue
            owner = owners[0]
        r = R.impl[owner]
        if r["kind"] == "adaptor":
            continue
        w = env.world_of(owner)
        n += 1
        hits = []
        for e in env.flat_events(b, sa, w, own_closures=True):
            if e.kind == "call":
                ck = e.callee.key
                mdl = e.info.get("model")
                if mdl == "ptr_add" and R.classify(e.args[0])[0] == "store":
                    off = unref(e.args[1])
                    if off[0] == "param" and off[1] >= 2:
                        hits.append((e, "raw pointer into the storage at the caller's index"))
                if mdl == "UnsafeCell::get" and e.args and R.classify(e.args[0]) == ("cell", owner) \
                        and (b.info or {}).get("inputs", [{}])[0].get("k") == "ref" and not (b.info or {}).get("inputs")[0].get("mut") \
                        or (mdl == "UnsafeCell::get" and e.args and R.classify(e.args[0]) == ("cell", owner) and sa != owner):
                    # the ticket must be a reservation made inside this very call
                    own_ticket = False
                    for f in env.event_facts(e):
                        if f[0] == "eq" and len(f) == 3:
                            for x in (f[1], f[2]):
                                ux = unref(x)
                                if ux[0] == "atomic" and ux[1] == "fetch_add":
                                    own_ticket = True
                                if ux[0] == "param" and ux[1] >= 2:
                                    hits.append((e, "wrapped iterator used under a caller-chosen ticket"))
                    if not own_ticket and not hits:
                        hits.append((e, "wrapped iterator used without a ticket reserved inside the call"))
        # a safe public function that hands out a reference / pointer into cell-protected storage
        rt = ev.local(env.ctx(b, sa, w), 0)
        for x in subterms(rt):
            if x[0] == "call" and x[1] == "UnsafeCell::get" and x[2] and R.classify(x[2][0])[0] in ("cell", "store") \
                    and (b.info or {}).get("output", {}).get("k") in ("ref", "ptr"):
                hits.append((None, "it returns a reference into the storage behind the UnsafeCell"))
        k = "SURFACE|%s" % env.fname(b)
        if hits:
            e, what = hits[0]
            out.append(Ob("SURFACE", k, "viol", b.file_line(),
                          "the safe public function %s reaches a raw element access with an index chosen by its caller (%s): "
                          "two safe calls with the same index move the same element out twice" % (env.fname(b), what)))
        else:
            out.append(Ob("SURFACE", k, "ok", b.file_line(), "no caller-chosen index reaches a raw element access"))
    # position-counter mutators
    unsafe_storage = [a for a, r in R.impl.items() if r.get("consuming") or r["kind"] == "ticket"]
    counter_getters = []
    for adt in unsafe_storage:
        cb = R.method_body(R.T_ATOMIC, "counter", adt)
        if cb is not None and _callable_by_clients(F, cb.info or {}) and not (cb.info or {}).get("unsafe"):
            counter_getters.append(adt)
    for d, info in F.fns.items():
        if d not in F.bodies:
            continue
        b = F.bodies[d]
        sa = F.impl_self_adt(b) or ""
        if not sa.endswith("::AtomicCounter") or b.is_closure:
            continue
        stores = [e for e in env.flat_events(b, sa, None, max_depth=0) if e.kind == "atomic" and e.info["op"] in
                  ("store", "swap", "fetch_sub", "compare_exchange", "compare_exchange_weak")]
        if not stores:
            continue
        k = "SURFACE|%s|position-counter-mutator" % env.fname(b)
        if info.get("exported") and not info.get("unsafe") and counter_getters:
            out.append(Ob("SURFACE", k, "viol", b.file_line(),
                          "%s is a safe public function that overwrites a counter, and the position counter of %s is handed "
                          "out by the safe public method `counter()`: safe client code can rewind a consuming iterator and "
                          "have elements moved out twice" % (env.fname(b), ", ".join(env.sname(a) for a in counter_getters))))
        else:
            out.append(Ob("SURFACE", k, "ok", b.file_line(), "counter mutator is not reachable from safe public code"))
    if n < 20:
        out.append(Ob("SURFACE", "SURFACE|floor", "viol", "-", "only %d reachable safe functions of implementors (anchor lost)" % n))
    return out


# ---------------------------------------------------------------------------------------------------
def _build_rlib(shared):
    """build /repo's lib with the default (stable) toolchain; returns (rlib path, deps dir)"""
    cache = shared.setdefault("_rlib", {})
    if "path" in cache:
        return cache["path"], cache["deps"]
    work = shared["work"]
    tgt = os.path.join(work, "wit_target")
    env = dict(os.environ)
    env["CARGO_TARGET_DIR"] = tgt
    env["CARGO_NET_OFFLINE"] = "true"
    env.pop("RUSTC_WORKSPACE_WRAPPER", None)
    env.pop("RUSTFLAGS", None)
    p = subprocess.run(["cargo", "build", "--lib", "--offline", "--message-format=json", "--quiet"], cwd=shared["repo"],
                       env=env, stdout=subprocess.PIPE, stderr=subprocess.PIPE, text=True)
    rlib = None
    for line in p.stdout.splitlines():
        try:
            m = json.loads(line)
        except Exception:  # noqa
            continue
        if m.get("reason") == "compiler-artifact" and m.get("target", {}).get("name") == "orx_concurrent_iter":
            for f in m.get("filenames", []):
                if f.endswith(".rlib"):
                    rlib = f
    if p.returncode != 0 or rlib is None:
        raise RuntimeError("cannot build the library for witnesses:\n" + p.stderr[-2000:])
    cache["path"] = rlib
    cache["deps"] = os.path.join(tgt, "debug", "deps")
    return rlib, cache["deps"]


def _compile(src, rlib, deps, work):
    out = os.path.join(work, "wit_out")
    os.makedirs(out, exist_ok=True)
    p = subprocess.run(["rustc", "--edition", "2021", "--crate-name", "wit", "--crate-type", "bin", "--emit=metadata",
                        "--error-format=json",
                        "--extern", "orx_concurrent_iter=" + rlib, "-L", "dependency=" + deps, "--out-dir", out,
                        "-A", "warnings", src], stdout=subprocess.PIPE, stderr=subprocess.PIPE, text=True)
    errs = []
    for line in p.stderr.splitlines():
        try:
            m = json.loads(line)
        except Exception:  # noqa
            continue
        if m.get("level") == "error":
            code = (m.get("code") or {}).get("code")
            ln = None
            for sp in m.get("spans", []):
                if sp.get("is_primary"):
                    ln = sp.get("line_start")
            errs.append((code, ln, m.get("message", "")[:160]))
    return p.returncode, errs


def rule_wit_for(prop):
    def rule(env, shared):
        out = []
        here = shared["here"]
        wdir = os.path.join(here, "witness")
        files = sorted(f for f in os.listdir(wdir) if f.endswith(".rs"))
        try:
            rlib, deps = _build_rlib(shared)
        except Exception as e:  # noqa
            return [Ob("WIT", "WIT|build", "viol", "-", "infrastructure: %s" % e)]
        n = 0
        todo = []
        for f in files:
            path = os.path.join(wdir, f)
            src = open(path).read()
            mprop = re.search(r"//@ property: (.*)", src)
            mexp = re.search(r"//@ expect: (\S+)", src)
            if not mprop or not mexp or prop not in mprop.group(1).split():
                continue
            todo.append((f, path, src, mexp.group(1)))
        from concurrent.futures import ThreadPoolExecutor
        with ThreadPoolExecutor(max_workers=8) as ex:
            results = list(ex.map(lambda it: _compile(it[1], rlib, deps, os.path.join(shared["work"], "w_" + it[0])), todo))
        for (f, path, src, expect), (rc, errs) in zip(todo, results):
            n += 1
            name = f[:-3]
            k = "WIT|%s" % name
            if expect == "ok":
                if rc == 0:
                    out.append(Ob("WIT", k, "ok", "witness/" + f, "valid twin compiles", True))
                else:
                    out.append(Ob("WIT", k, "viol", "witness/" + f,
                                  "a valid client program no longer compiles against the crate: %s" % errs[:2]))
                continue
            want = expect.split("|")
            marked = [i + 1 for i, l in enumerate(src.splitlines()) if "//~ ERROR" in l]
            if rc == 0:
                out.append(Ob("WIT", k, "viol", "witness/" + f,
                              "a client program that must be rejected (%s) compiles: %s" % (
                                  expect, src.splitlines()[2].lstrip("/ ") if len(src.splitlines()) > 2 else "")))
                continue
            hit = [e for e in errs if e[0] in want and (not marked or e[1] in marked)]
            if hit:
                out.append(Ob("WIT", k, "ok", "witness/" + f, "rejected with %s on the marked line" % hit[0][0], True))
            else:
                out.append(Ob("WIT", k, "viol", "witness/" + f,
                              "the witness is rejected, but not for the expected reason (%s on line %s); got %s — the witness "
                              "or the API changed" % (expect, marked, errs[:3])))
        if n == 0:
            out.append(Ob("WIT", "WIT|none", "viol", "-", "no witnesses found for %s" % prop))
        return out
    rule.once = True
    return rule


def _clone_position(env, cb, adt, r):
    """(ok, why): every way the counter of the value returned by `clone` gets its final value is judged (see IND)"""
    from guards import Prover, bool_facts, block_facts
    from r_m1 import rewrite
    R, F, ev = env.R, env.F, env.ev
    ctx = env.ctx(cb, adt, None)
    t = unref(ev.local(ctx, 0))
    if not (t[0] == "agg" and r.get("pos") is not None and r["pos"] < len(t[2])):
        return False, "the returned value is not built as a struct: %s" % fmt(t)[:100]
    cf = t[2][r["pos"]]
    L = r.get("len_term")
    if L is None:
        return False, "length of the source not known"

    def strip_conv(x):
        """the plain value an atomic is built from: `v.into()`, `AtomicUsize::new(v)`"""
        x = unref(x)
        while (x[0] == "call" and x[1] == "conv" and x[2]) or \
                (x[0] in ("call", "ret") and isinstance(x[1], str) and "atomic::Atomic" in x[1] and x[1].endswith("::new")
                 and len(x[2]) == 1):
            x = unref(x[2][0])
        return x

    def is_load(v):
        v = strip_conv(v)
        return v[0] == "atomic" and v[1] == "load" and R.classify(v[2]) == ("pos", adt)

    def unclone(x):
        return rewrite(x, lambda y: unref(y[2][0]) if (y[0] == "call" and y[1] == "clone" and len(y[2]) == 1) else None)

    def alts(v):
        """[(facts, value)]"""
        v = strip_conv(v)
        if v[0] == "call" and v[1] == "Option::unwrap_or" and len(v[2]) == 2:
            o, d = unref(v[2][0]), v[2][1]
            if o[0] == "call" and o[1] in ("bool::then_some", "bool::then") and len(o[2]) == 2:
                pv = o[2][1] if o[1] == "bool::then_some" else ev.closure_ret(ctx, o[2][1], [])
                return [(bool_facts(o[2][0], True) + f, x) for (f, x) in alts(pv)] + \
                       [(bool_facts(o[2][0], False) + f, x) for (f, x) in alts(d)]
            return [([], ev.payload(ctx, o)), ([], d)]
        if v[0] == "call" and v[1] == "min" and len(v[2]) == 2:
            a, b = strip_conv(v[2][0]), strip_conv(v[2][1])
            return [([("le", a, b)], a), ([("lt", b, a)], b)]
        if v[0] == "phi":
            af = ev.alt_facts.get(v, {})
            out_ = []
            for x in v[1]:
                for (f, y) in alts(x):
                    out_.append((list(af.get(x, [])) + f, y))
            return out_
        return [([], v)]
    cases = []
    why0 = None
    # (1) the value the counter is built with
    if cf[0] == "call" and cf[1] == "clone" and cf[2] and R.classify(cf[2][0])[0] == "pos":
        ctr_adt = adt_of(r["fields"][r["pos"]]["ty"])
        ccd = F.method_impl("std::clone::Clone", "clone", ctr_adt)
        ct = unref(ev.local(env.ctx(F.bodies[ccd], ctr_adt, None), 0)) if ccd and ccd in F.bodies else None
        inner = strip_conv(ct[2][0]) if (ct is not None and ct[0] == "agg" and len(ct[2]) == 1) else None
        if inner is not None and inner[0] == "atomic" and inner[1] == "load" and unref(inner[2])[0] == "field" \
                and unref(inner[2])[1] == ("deref", ("param", 1)):
            init = [([], "LOAD")]
        else:
            return False, "the counter is cloned by something that is not `new(load of the old value)`"
    else:
        vals = [x for x in subterms(cf) if x[0] == "call" and x[1] == "conv"]
        inner = cf
        while inner[0] == "agg" and len(inner[2]) == 1:
            inner = inner[2][0]
        init = alts(inner)
    # (2) stores into the counter of the new value after it was built
    cell = cf
    while cell[0] == "agg" and len(cell[2]) == 1:
        cell = cell[2][0]
    stores = []
    for e in env.flat_events(cb, adt, None):
        if e.kind == "atomic" and e.info["op"] == "store" and unref(e.info["place"]) == cell \
                and not any(x == ("param", 1) for x in subterms(e.info["place"])):
            stores.append(e)
    if stores:
        sb = {e.info["top_bb"] for e in stores}
        for e in stores:
            others = sb - {e.info["top_bb"]}
            tgt = cb.term(e.info["top_bb"]).get("target")
            if tgt is not None and any(o in cb.reachable(tgt) for o in others):
                return False, "the new counter is stored more than once on a path"
            for (f, v) in alts(e.args[1]):
                cases.append((list(env.event_facts(e)) + f, v))
        if cb.paths_avoiding(0, set(cb.exits()), sb):
            cases.extend(init)
    else:
        cases = init
    Lc = unclone(L)
    for (fs, v) in cases:
        if v == "LOAD" or is_load(v):
            continue
        p = Prover(fs, ev, ctx)
        exhausted = any(len(f) == 3 and f[0] == "le" and isinstance(f[2], tuple) and unclone(f[1]) == Lc and is_load(f[2])
                        for f in fs) or \
            any(is_load(x) and p.le(Lc, x) for f in fs if len(f) == 3 for x in (f[1], f[2])
                if isinstance(x, tuple) and x and isinstance(x[0], str))
        vv = unclone(strip_conv(v)) if isinstance(v, tuple) else v
        if not (exhausted and (vv == Lc or p.le(Lc, vv))):
            return False, "it can start at %s%s" % (fmt(vv)[:70], "" if exhausted else " while the original is not known to be exhausted")
    if not cases:
        return False, "no value found for the new counter"
    return True, None


def rule_ind(env, shared):
    """IND: the borrowing iterators (over a slice, over a range) contain no unsafe operation and no interior mutability
    but the by-value counter; con_iter() passes the collection's own slice (no copy); delivered references come from
    get/index on that slice; Clone builds a new counter from the value of the old one."""
    out = []
    R, F, ev = env.R, env.F, env.ev
    borrowing = [(a, r) for a, r in R.impl.items() if r["kind"] == "known" and not r.get("consuming")]
    if len(borrowing) < 2:
        out.append(Ob("IND", "IND|floor", "viol", "-", "borrowing implementors not found"))
    for adt, r in borrowing:
        nm = r["name"]
        # fields
        bad = []
        for i, f in enumerate(r["fields"]):
            s = f["ty"]["s"]
            if i == r.get("pos"):
                if f["ty"].get("k") != "adt":
                    bad.append("counter is not owned by value: %s" % s)
                continue
            for marker in ("UnsafeCell", "*mut", "*const", "sync::Arc", "rc::Rc", "Mutex", "RefCell", "Atomic", "Cell<"):
                if marker in s:
                    bad.append("field `%s: %s`" % (f["name"], s))
        k = "IND|%s|fields" % nm
        out.append(Ob("IND", k, "viol" if bad else "ok", "-",
                      "%s has shared or interior-mutable state besides its own counter: %s" % (nm, bad) if bad else
                      "only a shared borrow / plain values and an owned counter"))
        # no unsafe operations in its bodies and puller
        ub = []
        for b in F.non_test_bodies():
            sa = F.impl_self_adt(b)
            if sa not in (adt, r.get("puller")):
                continue
            if (b.info or {}).get("unsafe"):
                ub.append(env.fname(b))
            for bi, t, c in b.calls():
                if c.unsafe:
                    ub.append("%s -> %s" % (env.fname(b), c.key))
            for blk in b.blocks:
                for s in blk["stmts"]:
                    if s["k"] == "assign" and s["rv"]["k"] == "rawptr" and "Fake" not in s["rv"].get("pk", ""):
                        ub.append("%s: raw pointer" % env.fname(b))
        k = "IND|%s|no-unsafe" % nm
        out.append(Ob("IND", k, "viol" if ub else "ok", "-",
                      "%s uses unsafe operations: %s" % (nm, ub[:4]) if ub else "no unsafe operation", True))
        # Clone: new counter from a load of the old one
        cd = F.method_impl("std::clone::Clone", "clone", adt)
        if cd and cd in F.bodies:
            cb = F.bodies[cd]
            t = ev.local(env.ctx(cb, adt, None), 0)
            t = unref(t)
            cf = t[2][r["pos"]] if t[0] == "agg" and r.get("pos") is not None and r["pos"] < len(t[2]) else None
            has_load = cf is not None and any(x[0] == "atomic" and x[1] == "load" for x in subterms(cf))
            if cf is not None and cf[0] == "call" and cf[1] == "clone" and R.classify(cf[2][0])[0] == "pos":
                # Clone of the counter type: must build a new atomic from a load of the old value
                ctr_adt = adt_of(r["fields"][r["pos"]]["ty"])
                ccd = F.method_impl("std::clone::Clone", "clone", ctr_adt)
                if ccd and ccd in F.bodies:
                    ct = unref(ev.local(env.ctx(F.bodies[ccd], ctr_adt, None), 0))
                    if ct[0] == "agg" and any(x[0] == "atomic" and x[1] == "load" for x in subterms(ct)) and \
                            not any(y[0] in ("ref",) for y in ct[2]):
                        has_load = True
                        cf = ct
            # (a counter built afresh from a plain value is not shared whatever the value is; whether it is the right value
            #  is the next obligation)
            fresh = cf is not None and cf[0] == "agg" and not any(x[0] in ("ref", "param") for x in subterms(cf))
            shares = cf is None or cf[0] in ("ref", "param", "field", "deref") or not (has_load or fresh)
            k = "IND|%s|clone" % nm
            okk = not shares
            out.append(Ob("IND", k, "ok" if okk else "viol", cb.file_line(),
                          "clone owns a fresh counter (value copied)" if okk else
                          "a clone of %s shares the counter of the original" % nm, True))
            # .. and the clone starts where the original stands: the value the new counter ends up with is the original's
            # position, or — when the original is exhausted (LEN <= its counter) — any position at or after the end
            k = "IND|%s|clone-position" % nm
            okp, whyp = _clone_position(env, cb, adt, r)
            out.append(Ob("IND", k, "ok" if okp else "viol", cb.file_line(),
                          "the clone's counter starts at the original's position (an exhausted original gives an exhausted "
                          "clone)" if okp else
                          "a clone of %s does not start at the original's current position: %s — it delivers elements the "
                          "original has already passed, or skips elements" % (nm, whyp), True))
    # clone_from is the default (`*self = source.clone()`): an override would have to be proved equal to clone
    for i in F.impls_of_trait.get("std::clone::Clone", []):
        a_ = adt_of(i["self_ty"])
        if a_ is None or not (a_ in R.impl or a_.endswith("::AtomicCounter")):
            continue
        k = "IND|%s|clone_from" % a_.split("::")[-1]
        okk = i["items"].get("clone_from", "default") == "default"
        out.append(Ob("IND", k, "ok" if okk else "viol", "%s:%s" % (i["loc"]["file"], i["loc"]["line"]),
                      "clone_from is the default (assigns a clone)" if okk else
                      "%s overrides Clone::clone_from: `a.clone_from(&b)` is not known to leave `a` equal to `b.clone()` — a "
                      "partial copy (position without the source, or the reverse) makes the \"clone\" iterate another "
                      "collection or start at another position" % a_.split("::")[-1]))
    # positive control: the same detector must flag the consuming Vec implementor
    ctrl = [(a, r) for a, r in R.impl.items() if r.get("consuming")]
    if ctrl:
        a, r = ctrl[0]
        flagged = any("UnsafeCell" in f["ty"]["s"] for f in r["fields"])
        out.append(Ob("IND", "IND|control|%s" % r["name"], "ok" if flagged else "viol", "-",
                      "control: the detector recognises the interior mutability of a consuming implementor" if flagged else
                      "control failed: detector does not see UnsafeCell storage"))
    # con_iter() passes the collection's own slice
    if R.T_ITERABLE:
        for i in F.impls_of_trait.get(R.T_ITERABLE, []):
            m = i["items"].get("con_iter")
            if not isinstance(m, dict) or m["def"] not in F.bodies:
                continue
            b = F.bodies[m["def"]]
            st = i["self_ty"]["s"]
            ctx = env.ctx(b, None, None)
            t = unref(ev.local(ctx, 0))
            k = "IND|con_iter|%s" % st
            txt = fmt(t)
            copies = [c.key for _, _, c in b.calls() if c.name in ("to_vec", "to_owned", "collect", "into_vec", "from_iter")
                      or (c.name == "clone" and "Range" not in st)]
            # the struct is built from (a view of) self
            built = t[0] == "agg" and any(x in (("param", 1), ("deref", ("param", 1))) or
                                          (x[0] == "call" and x[1] in ("as_slice", "clone", "deref")) for x in
                                          [unref(y) for y in subterms(t)])
            okk = built and not copies
            out.append(Ob("IND", k, "ok" if okk else "viol", b.file_line(),
                          "con_iter() wraps the collection's own elements (no copy)" if okk else
                          "con_iter() for %s does not iterate over the collection's own elements (copies: %s): %s" % (
                              st, copies, txt[:100]), True))
    return out
